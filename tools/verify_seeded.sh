#!/bin/bash
# usage: verify_seeded.sh <seeded dir> — confirms in the scratch worktree /tmp/wt-verify:
#  patch alone: suite passes; patch+demo: new test fails; demo alone: passes
set -u
D="$1"; W=/tmp/wt-verify
cd $W || exit 2
git checkout -q -- . ; git clean -fdq -e target
res() { timeout 900 cargo test --offline 2>&1 | grep -E "^test result|^error(\[|:)" | head -2 | tr '\n' ' '; }
git apply "$D/patch.diff" || { echo "PATCH DOES NOT APPLY"; exit 1; }
A=$(res); git checkout -q -- . ; git clean -fdq -e target
B="(no demo.diff)"; C="(no demo.diff)"
if [ -f "$D/demo.diff" ]; then
  git apply "$D/patch.diff" && git apply "$D/demo.diff" && B=$(res); git checkout -q -- . ; git clean -fdq -e target
  git apply "$D/demo.diff" && C=$(res); git checkout -q -- . ; git clean -fdq -e target
fi
echo "patch only : $A"; echo "patch+demo : $B"; echo "demo only  : $C"
