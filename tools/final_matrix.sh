#!/bin/bash
# usage: final_matrix.sh [out.tsv] — every seeded/hand mutant against its own property's quick check and,
# if that stays green, against the checks named in its meta.json (detected_by). /repo must be clean.
OUT="${1:-/verif/seeded/matrix_final.tsv}"
: > "$OUT"
cd /verif
for d in seeded/*/; do
  id=$(basename "$d"); [ -f "$d/meta.json" ] || continue
  prop=$(jq -r .property_broken "$d/meta.json")
  by=$(jq -r .detected_by "$d/meta.json")
  r=$(tools/run_mutant.sh "/verif/$d/patch.diff" quick "$prop" 2>&1 | grep "^$prop exit" | head -1)
  line="$id\t$prop\tquick\t$r"
  if ! echo "$r" | grep -q "exit=1"; then
    others=$(echo "$by" | grep -o 'C[0-9][0-9]' | sort -u | grep -v "^$prop$" | tr '\n' ' ')
    tier=quick; echo "$by" | grep -q "thorough" && tier=thorough
    for o in $others; do
      r2=$(tools/run_mutant.sh "/verif/$d/patch.diff" $tier "$o" 2>&1 | grep "^$o exit" | head -1)
      line="$line\t|\t$o $tier: $r2"
      echo "$r2" | grep -q "exit=1" && break
    done
  fi
  echo -e "$line" >> "$OUT"
done
echo done >> "$OUT"
