#!/usr/bin/env python3
"""Regenerates /verif/MANIFEST.json from the table below (single source of truth)."""
import json, os
ROOT = os.path.dirname(os.path.dirname(os.path.abspath(__file__)))
ALL = ["C%02d" % i for i in range(1, 21)]

W = "Trusted base: the simulated node of DESIGN.md section 4 (atomic RPCs, part/pay semantics, crash model), the harness's own HTLC classifier (scen.rs) and the third-party lightning-invoice parser; interleavings are those at .await points of a seeded current-thread runtime; wall clock reaches the plugin only through stored attempt times aged on a 5 s grid."

CHECKS = {
 "C01": dict(engine="WORLD+PAR", category="exploration", design="6 C01",
   technique="stateful property-based testing: proptest-generated multi-lifetime scenarios against the real HtlcManager/ClnDatastore/PayPaymentProvider over a simulated node; invariant monitor at every resolve and pay",
   text="Generated-input search (quick ~10^4, thorough ~10^5 scenarios): 1-3 payments, HTLCs carrying the invoice of another hash, late HTLCs, crashes and write faults; at every resolve the key must hash to the HTLC's own hash and stem from a completed part or Succeeded record; at every pay no held HTLC carrying that invoice may have another hash. Right level: the defect class (D1) needs a particular request shape plus a full lifecycle, which a generator reaches in every run. A phase starts with payment 0 already paid by an earlier run (Succeeded record in the pinned release's stored format + complete part). A MANY phase pays 300-700 (thorough: up to 5000) different invoices in one process and then delivers late HTLCs for the early ones: each must be settled with its own preimage.",
   note=W),
 "C02": dict(engine="WORLD+PAR+E2E", category="fault_enumeration", design="6 C02",
   technique="stateful property-based testing with fault injection: generated schedules + systematic crash-point / write-fault enumeration (thorough) + read-fault profile (thorough); invariant monitor at every fail answer; parallel stress phase (multi-thread runtime, perturbed schedule) with answer/pay-call oracles",
   text="Every fail answer of a trampoline HTLC is checked against the node's part table and running pay commands at that instant, over generated interleavings (part resolutions between the RPCs of wait_payment, pay outcomes leaving parts pending, restarts onto pending records) and injected write faults; thorough adds every single crash point and write fault of 150 base histories, every RPC of 200 two-attempt histories delayed, and RPC read errors (single, pairs, bursts of 3-4). A structured generator overlaps two lifecycles of one hash with one RPC of the first withheld. Fund-loss properties need one bad ordering out of thousands, which is what schedule search is for. A PAR phase releases all HTLCs of 1-10 funded sets at the same instant on an 8-thread runtime (real HtlcManager, stub collaborators, generated stalls at log call sites) and checks the answers and the pay calls. A phase restarts the plugin with a different configuration (policy, safety delta, MPP timeout) than the one the earlier lifetime ran with. Also quick: bursts of 3-4 rejected writes; the pay wrapper in xpay mode with payment timeouts 0-65535 s; PAR cases with 520-1500 HTLCs for one hash; an E2E phase replays HTLCs onto a Pending record with a pending part through the binary and sends every notification topic of the plugin's manifest (e.g. shutdown).",
   note=W+" Known findings K1/K3 (read faults only) are listed in known_findings.json."),
 "C03": dict(engine="WORLD", category="exploration", design="6 C03",
   technique="stateful property-based testing: invariant monitor over the arguments of every pay RPC versus the HTLCs held at that instant (u128 reference arithmetic)",
   text="At every pay arrival: held sum >= amount + fee (u128), maxfee <= held sum - amount, amount_msat absent iff the invoice has an amount, bolt11 carried by a held HTLC; afterwards no counted HTLC is answered before the payment's fate is known. Generated amount multisets around the threshold (+-1), 1-5 parts, restarts, extreme policies (thorough).",
   note=W),
 "C04": dict(engine="WORLD", category="exploration", design="6 C04",
   technique="stateful property-based testing: reference bound computed from the HTLCs held and the height told at the intent write, compared with maxdelay of every pay RPC",
   text="maxdelay <= min(policy delta, sat(sat(min expiry - height told) - safety delta)) with heights advancing (notifications and silent changes) while the set is collected, expiries clustered around the boundaries, extreme delta pairs (thorough); a low-relative-expiry HTLC before funding must prevent the pay. A phase restarts the plugin with a different configuration (policy, safety delta, MPP timeout) than the one the earlier lifetime ran with.",
   note=W),
 "C05": dict(engine="WORLD+PAR+E2E", category="fault_enumeration", design="6 C05",
   technique="stateful property-based testing with crash-point enumeration: invariant monitor at every pay RPC against the node's sendpay table; parallel stress phase (multi-thread runtime, perturbed schedule) with answer/pay-call oracles",
   text="No pay while a part of that hash is pending/complete or another pay runs; at most one completed payment group per hash. Generated overlaps of two lifecycles, crashes around intent writes and pay, stored histories Free/Pending/Succeeded; thorough enumerates every crash point and write fault of 150 base histories. A PAR phase releases all HTLCs of 1-10 funded sets at the same instant on an 8-thread runtime (real HtlcManager, stub collaborators, generated stalls at log call sites) and checks the answers and the pay calls. A phase restarts the plugin with a different configuration (policy, safety delta, MPP timeout) than the one the earlier lifetime ran with. A phase starts with payment 0 already paid by an earlier run (Succeeded record in the pinned release's stored format + complete part). Another phase fails only the stored-state read (listdatastore). Bursts of 3-4 rejected writes. MANY phase (hundreds of payments in one process, then late HTLCs). E2E: the binary is started on a datastore filled by earlier runs (paid 0-400 days ago): no new pay.",
   note=W),
 "C06": dict(engine="WORLD+E2E+PAR+FUZZ", category="exploration", design="6 C06",
   technique="property-based testing and fuzzing: byte-level request generators in WORLD (hang = unanswered after a fair drain in the model, panic hook), the same requests through the real binary (reply shape), libFuzzer campaign in thorough",
   text="Arbitrary payload/metadata bytes (truncated varints at every width, oversized lengths), numeric extremes, up to 6 HTLCs per hash, write faults (quick) and read faults (thorough): after the fair drain every call has exactly one well-formed answer, no task panicked, incomplete sets are failed within one MPP timeout. The real binary decides the reply shape (JSON-RPC error replies, panics on stderr, process exit with unanswered calls, a lost reply while later requests are answered at once); requests are also written in two pieces. Thorough adds a libFuzzer campaign over bytes -> requests + stub collaborator answers (target `request`). E2E also sends bursts of 200 forwards in one write and reports a process that sits idle with unanswered requests; a PAR phase (same-instant arrival on 8 threads) checks that no task panics. A WORLD phase retries a hash after a failed attempt while the failure-notification service never returns. E2E: the node answers the state read with long non-ASCII error texts (logged by the plugin).",
   note=W+" E2E uses real time only to bound waits (missing reply without a panic line = exit 2). Known finding K2 (todo!() on read fault) listed in known_findings.json."),
 "C07": dict(engine="WORLD+PAR", category="exploration", design="6 C07",
   technique="stateful property-based testing: per-instant batch monitor (all held HTLCs of a hash answered together, identically) and a reference rule for rejecting HTLCs; parallel stress phase (multi-thread runtime, perturbed schedule) with answer/pay-call oracles",
   text="Whenever one HTLC of a hash is answered, all HTLCs held for it are answered in the same instant with identical responses; a rejecting HTLC (conflicting invoice/amount, low expiry, low declared total) before funding means no pay for that lifecycle. 2-5 parts, rejecting HTLC at every position, arrivals while the state fetch is withheld. A PAR phase releases all HTLCs of 1-10 funded sets at the same instant on an 8-thread runtime (real HtlcManager, stub collaborators, generated stalls at log call sites) and checks the answers and the pay calls.",
   note=W),
 "C08": dict(engine="WORLD+E2E", category="fault_enumeration", design="6 C08",
   technique="stateful property-based testing with fault enumeration: invariant over (datastore, sendpay table) after every applied RPC effect, i.e. on every crash image",
   text="After every applied effect: parts pending/complete => stored Pending or Succeeded; stored Pending at every pay; Free only written when nothing is live; Succeeded holds a 32-byte preimage of the key's hash. Generated interleavings of two lifecycles of one hash, crashes, every write-fault kind; thorough enumerates all crash points/write faults of 150 base histories. A phase restarts the plugin with a different configuration (policy, safety delta, MPP timeout) than the one the earlier lifetime ran with. A phase starts with payment 0 already paid by an earlier run (Succeeded record in the pinned release's stored format + complete part). Another phase fails only the stored-state read (listdatastore). Bursts of 3-4 rejected writes. E2E: the binary is started on a datastore filled by earlier runs; the Succeeded record of a payment whose part is complete on the node must survive startup.",
   note=W),
 "C09": dict(engine="WORLD", category="fault_enumeration", design="6 C09",
   technique="fault enumeration + probe oracle: every crash point and single write fault of generated base histories, followed by a probe payment; fixpoint test of the stored image decides permanence",
   text="For each base history: crash after every node-side effect (3 flavours) and every datastore write rejected / applied-but-reported-failed; after the drain a fully funded probe for the same invoice in a fresh lifetime must be resolved; a failing probe that leaves the stored image unchanged is a fixpoint, hence permanent. Base histories include two-attempt histories (first attempt fails, bookkeeping delayed). The first probe runs in the same process (no restart), further probes in fresh lifetimes. Random multi-crash histories in addition. A phase starts with payment 0 already paid by an earlier run (Succeeded record in the pinned release's stored format + complete part).",
   note=W+" MPP timeout 0 is excluded (with it the plugin pays nothing at all)."),
 "C10": dict(engine="WORLD", category="exploration", design="6 C10",
   technique="property-based testing against a reference classifier: cartesian-biased single-HTLC scenarios, class equality and pay-argument checks",
   text="invoice {amount, amountless} x signature {valid, explicit payee, invalid, not utf-8, not bolt11} x hints x hash {=, !=} x amount field {absent, equal, +-1, leading zeros, 9 bytes, empty, raw} x flag; expected class from a classifier written from the property text; oracle: continue/fail/held as expected, pay carries exactly invoice and amount, notification names the verifying key.",
   note=W),
 "C11": dict(engine="WORLD+PAR", category="exploration", design="6 C11",
   technique="stateful property-based testing in virtual time: timing monitor on fail answers of incomplete sets (paused tokio clock, 5 s grid); parallel stress phase (multi-thread runtime, perturbed schedule) with answer/pay-call oracles",
   text="Incomplete sets (also after 1-3 attempts the plugin itself concluded): answer 0x2019, never left unanswered, no pay, t_fail in [t_fetch+T, t_fetch+T+1 s] for fresh hashes, <= t_recovery+T after a restart, immediate when the attempt is older than T+5 s. Timeouts 0-120 s, arrival patterns over ticks, restarts with downtimes on the grid. A PAR phase releases all HTLCs of 1-10 funded sets at the same instant on an 8-thread runtime (real HtlcManager, stub collaborators, generated stalls at log call sites) and checks the answers and the pay calls. A phase restarts the plugin with a different configuration (policy, safety delta, MPP timeout) than the one the earlier lifetime ran with.",
   note=W+" One known finding (lifecycle-overlap race answering 0x2002) in known_findings.json."),
 "C12": dict(engine="PURE+WORLD", category="exploration", design="6 C12",
   technique="property-based testing: proptest + fixed boundary grid against a u128 reference model, in an overflow-checking and a wrapping build; WORLD monitor for the rejection bytes",
   text="~5*10^5 (quick) / ~7*10^6 (thorough) (base,ppm,total,amount) tuples, boundary-biased plus a fixed grid, each evaluated by the real fee_sufficient compiled with and without overflow checks and compared with an exact 128-bit reference; failure encoding compared with the byte layout; in WORLD the first HTLC of a fresh payment failing the fee test / expiry gate must be answered 0x201a||configured policy.",
   note="Trusted: the u128 reference in harness/src/refmodel.rs; that the `pure` workspace member really is a wrapping build (asserted at run time). One known finding (conservative false when amount*ppm exceeds u64) is pinned by an existing unit test and listed in known_findings.json. "+W),
 "C13": dict(engine="WORLD+E2E", category="exploration", design="6 C13",
   technique="property-based testing with a metamorphic relation: non-trampoline-only scenarios (continue, zero RPCs, byte-exact rewrite) and insertion of such HTLCs into base scenarios (observable trace unchanged)",
   text="Generated non-trampoline classes incl. the only metadata shape that reaches the payload-rewrite branch; oracle: continue in the delivery instant, no RPC, empty datastore, rewritten payload = input records minus type 16; metamorphic: inserting them beside real payments changes neither RPC requests nor answers; a third phase delivers them while real payments have RPCs outstanding (must still be answered in the delivery instant). Thorough repeats it through the real binary with an idle RPC socket.",
   note=W),
 "C14": dict(engine="WORLD+E2E", category="exploration", design="6 C14",
   technique="differential testing: payment B alone versus B beside payment A frozen at a generated RPC (or on its timer); traces must be equal",
   text="A's RPCs are withheld forever from its k-th on (k = 0..12 covers state fetch, intent writes, pay, list calls, waitsendpay, mark_* writes); B (race-free) must produce the identical observable trace and complete. E2E phase: while the node leaves the pay command of one hash unanswered, forwards of other hashes sent to the real binary must be answered (violation only if the process is idle and the replies are still missing). A mode in which every store RPC of A fails (instead of being withheld).",
   note=W),
 "C15": dict(engine="WORLD(unit)", category="exploration", design="6 C15",
   technique="property-based testing + exhaustive small scope: real PayPaymentProvider<Rpc>::wait_payment against the simulated node, result compared with the sendpay table at return",
   text="0-4 parts in arbitrary states, completions/failures at every position among the list and waitsendpay answers, RPC-level failures (waitsendpay -1/200/400 while its part is in flight, failing list query), waitsendpay timeouts in virtual time; all event sequences up to length 4/6 for 1-2 pending parts enumerated. Some(p) => a part is complete with p; None => nothing pending or complete; Err => violation unless an RPC-level error was injected in that case.",
   note="Trusted: node model for listsendpays (snapshot at answer) and waitsendpay (held while pending)."),
 "C16": dict(engine="WORLD(unit)", category="exploration", design="6 C16",
   technique="property-based testing + cartesian enumeration: pay outcome x part configuration x later resolution order against the real PayPaymentProvider<Rpc>::pay",
   text="8 pay outcomes x 8 part configurations x 5 resolution orders x recipient fate enumerated, plus generated step sequences; Ok(p) => p preimage of a complete part; Err => nothing pending or complete.",
   note="Only in this check the node may answer `failed` in any part configuration (the property quantifies over it)."),
 "C17": dict(engine="WIRE+E2E", category="exploration", design="6 C17",
   technique="property-based testing of the plugin driver over in-memory pipes: generated chunking, buffer sizes and handler completion orders; frame/reply oracle; real binary at trace log level",
   text="Real cln_plugin Builder/driver over duplex pipes with 1..255-byte buffers; requests with numeric/string/non-ASCII ids, payloads with escaped newlines and multi-byte UTF-8, cuts inside separators and characters, handlers released in generated order. Oracle: invocations = requests once each in order; output = complete JSON frames; one matching reply per id. E2E: stdout of the binary (replies + log notifications) splits into complete JSON frames.",
   note="In-process the logging layer is disabled (process-global subscriber); log/reply interleaving is observed only through the real binary."),
 "C18": dict(engine="PURE+FUZZ", category="exploration", design="6 C18",
   technique="property-based testing: exhaustive small-scope enumeration + proptest round-trip/differential against an independent BigSize/TLV reference codec; libFuzzer campaign in the thorough tier",
   text="Exhaustive over all byte strings of length <=2 and over a 12-symbol varint-marker alphabet up to length 5/6, plus generated valid streams (every varint width, every truncation offset) and arbitrary record lists, through all three decoding entry points; oracle = no panic, decode equals an independent reference, byte-exact re-encoding, records round trip, tu64 equals big-endian value.",
   note="Trusted: the strict reference codec in harness/src/refmodel.rs. Non-canonical encodings accepted by the decoder are outside the property and not judged."),
 "C19": dict(engine="E2E", category="exploration", design="6 C19",
   technique="property-based testing of the real binary: generated option assignments (boundary values, swapped/equal deltas) against a reference acceptance rule and a probe script reading the applied values back",
   text="main() is reachable only through the binary. 29 fixed boundary configurations + generated ones; refusing configs must exit non-zero without init reply; accepted ones are probed: policy bytes in rejections, fee threshold, maxdelay with safety delta / policy cap, retry_for cap, MPP timeout (strict lower bound; upper bound only while the plugin demonstrably answers other requests), self-route-hint flag. Configurations with long MPP timeouts (up to i64::MAX) run the probe script too (the partial set must then stay held).",
   note="Real time is involved: shallowest check; an expired wait without verdict is exit 2."),
 "C20": dict(engine="WORLD+E2E", category="exploration", design="6 C20",
   technique="stateful property-based testing in virtual time: real BlockWatcher against generated poll replies, notifications and failures; max-of-told reference model",
   text="After every step current_height() must equal the maximum height told in this lifetime (startup, answered polls, notifications), and the next poll must arrive within 60 s of the previous answer, also after failed polls. getinfo replies may carry sync warnings. A parallel stress phase (multi-thread runtime, hundreds of concurrent notifications) checks the final height and that no reader sees a decrease. E2E (also quick): block_added wiring and the blocking startup query (slow getinfo) through the binary via the maxdelay of a following pay. E2E poll phase (also quick, about 62 s): the node's height rises without notification; the binary must query again within one poll interval and use the answer. The E2E block_added phase includes bursts of 100-300 notifications in one write.",
   note=W),
}

def main():
    checks = []
    for pid in ALL:
        if pid not in CHECKS: continue
        c = CHECKS[pid]
        checks.append({
            "property_id": pid,
            "quick_cmd": f"./check {pid} quick",
            "thorough_cmd": f"./check {pid} thorough",
            "evidence_file": f"/verif/evidence/{pid}.json",
            "replay_cmd_template": "./check replay {path}",
            "engine": c["engine"],
            "level_claimed": {"category": c["category"], "text": c["text"], "design_ref": "DESIGN.md section " + c["design"]},
            "level_note": c["note"],
            "technique": c["technique"],
        })
    na = [{"property_id": p, "reason": "check under construction in this session (engine WORLD/WIRE/E2E not yet committed); see DESIGN.md section 6 for the planned decision procedure"} for p in ALL if p not in CHECKS]
    m = {
        "version": 1,
        "setup_cmd": "./check setup",
        "hooks": {
            "guard": "trampoline_verif",
            "enable": "no source hooks are needed: the harness crate #[path]-includes /repo/src/*.rs and rebuilds them on every check; the guard name is reserved but unused",
            "baseline_off_cmd": "cd /repo && cargo test --workspace --no-fail-fast --offline",
            "source_commits": [],
            "add_only": True,
        },
        "engines": [
            {"name": "PURE", "path": "harness/src/props/c12.rs, c18.rs", "serves_properties": ["C12", "C18"], "kind_free_text": "proptest + exhaustive small scopes on functions of messages.rs / tlv.rs against reference models (refmodel.rs); `pure` crate = wrapping build"},
            {"name": "WORLD", "path": "harness/src/world.rs, node.rs, scen.rs, monitors.rs", "serves_properties": ["C01","C02","C03","C04","C05","C06","C07","C08","C09","C10","C11","C12","C13","C14","C15","C16","C20"], "kind_free_text": "real HtlcManager + ClnDatastore + PayPaymentProvider<Rpc> + BlockWatcher against a simulated lightningd over a unix socket in a paused, seeded tokio runtime; scenario = proptest value (payments, HTLCs, schedule, faults, crashes); monitors = invariants at node-side instants"},
            {"name": "PAR", "path": "harness/src/props/par.rs", "serves_properties": ["C01","C02","C05","C06","C07","C11"], "kind_free_text": "real HtlcManager on a multi-thread tokio runtime with in-memory stub collaborators; all handlers released behind one barrier, schedule perturbed by generated stalls at the plugin's log call sites; not schedule-deterministic (replay repeats a case up to 25 times)"},
            {"name": "WIRE", "path": "harness/src/props/c17.rs", "serves_properties": ["C17"], "kind_free_text": "real cln_plugin driver over in-memory duplex pipes with generated chunking and handler completion order"},
            {"name": "E2E", "path": "harness/src/e2e.rs, props/c19.rs", "serves_properties": ["C02","C05","C06","C08","C13","C14","C17","C19","C20"], "kind_free_text": "the real binary target/debug/trampoline (rebuilt from /repo) on pipes, against the simulated node with an autopilot"},
            {"name": "FUZZ", "path": "harness/fuzz", "serves_properties": ["C18","C06"], "kind_free_text": "cargo-fuzz/libFuzzer targets with the semantic oracle inside (thorough tier)"},
        ],
        "checks": checks,
        "not_applicable": na,
        "notes": "All checks: ./check <ID> quick|thorough (cwd /verif). Exit 0 held / 1 VIOLATION / 2 infrastructure or inconclusive. Known findings: known_findings.json. Replays: replays/regress (committed), replays/found (new counterexamples).",
    }
    json.dump(m, open(os.path.join(ROOT, "MANIFEST.json"), "w"), indent=1)
    print("wrote MANIFEST.json with", len(checks), "checks")
main()
