#!/usr/bin/env python3
"""Regenerates /verif/MANIFEST.json from the table below (single source of truth)."""
import json, os
ROOT = os.path.dirname(os.path.dirname(os.path.abspath(__file__)))
ALL = ["C%02d" % i for i in range(1, 21)]

CHECKS = {
 "C12": dict(engine="PURE+WORLD", category="exploration", design="6 C12",
   technique="property-based testing: proptest + fixed boundary grid against a u128 reference model, in an overflow-checking and a wrapping build",
   text="Generated-input search: ~5*10^5 (quick) / ~7*10^6 (thorough) (base,ppm,total,amount) tuples, boundary-biased plus a fixed grid of special values, each evaluated by the real fee_sufficient compiled with and without overflow checks and compared with an exact 128-bit reference; failure encoding compared with the byte layout. Right level because the property is a pure function over a huge domain where the defects sit on arithmetic boundaries that a biased generator hits every run.",
   note="Trusted: the u128 reference in harness/src/refmodel.rs; that the `pure` workspace member really is a wrapping build (asserted at run time). One known finding (conservative false when amount*ppm exceeds u64) is pinned by an existing unit test and listed in known_findings.json."),
 "C18": dict(engine="PURE+FUZZ", category="exploration", design="6 C18",
   technique="property-based testing: exhaustive small-scope enumeration + proptest round-trip/differential against an independent BigSize/TLV reference codec; libFuzzer campaign in the thorough tier",
   text="Exhaustive over all byte strings of length <=2 and over a 12-symbol varint-marker alphabet up to length 5/6, plus generated valid streams (every varint width, every truncation offset) and arbitrary record lists, through all three decoding entry points; oracle = no panic, decode equals an independent reference, byte-exact re-encoding, records round trip, tu64 equals big-endian value. Right level: the codec is a pure total function and its historic defect (truncated varint) lives at lengths the exhaustive part covers completely.",
   note="Trusted: the strict reference codec in harness/src/refmodel.rs. Non-canonical encodings accepted by the decoder are outside the property and not judged."),
}

def main():
    checks = []
    for pid in ALL:
        if pid not in CHECKS: continue
        c = CHECKS[pid]
        checks.append({
            "property_id": pid,
            "quick_cmd": f"./check {pid} quick",
            "thorough_cmd": f"./check {pid} thorough",
            "evidence_file": f"/verif/evidence/{pid}.json",
            "replay_cmd_template": "./check replay {path}",
            "engine": c["engine"],
            "level_claimed": {"category": c["category"], "text": c["text"], "design_ref": "DESIGN.md section " + c["design"]},
            "level_note": c["note"],
            "technique": c["technique"],
        })
    na = [{"property_id": p, "reason": "check under construction in this session (engine WORLD/WIRE/E2E not yet committed); see DESIGN.md section 6 for the planned decision procedure"} for p in ALL if p not in CHECKS]
    m = {
        "version": 1,
        "setup_cmd": "./check setup",
        "hooks": {
            "guard": "trampoline_verif",
            "enable": "no source hooks are needed: the harness crate #[path]-includes /repo/src/*.rs and rebuilds them on every check; the guard name is reserved but unused",
            "baseline_off_cmd": "cd /repo && cargo test --workspace --no-fail-fast --offline",
            "source_commits": [],
            "add_only": True,
        },
        "engines": [
            {"name": "PURE", "path": "harness/src/props", "serves_properties": ["C12", "C18"], "kind_free_text": "proptest + exhaustive small scopes on functions of messages.rs / tlv.rs against reference models"},
        ],
        "checks": checks,
        "not_applicable": na,
        "notes": "All checks: ./check <ID> quick|thorough (cwd /verif). Exit 0 held / 1 VIOLATION / 2 infrastructure or inconclusive. Known findings: known_findings.json. Replays: replays/regress (committed), replays/found (new counterexamples).",
    }
    json.dump(m, open(os.path.join(ROOT, "MANIFEST.json"), "w"), indent=1)
    print("wrote MANIFEST.json with", len(checks), "checks")
main()
