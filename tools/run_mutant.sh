#!/bin/bash
# usage: run_mutant.sh <patch.diff> [tier] [prop ...]   — applies the patch to /repo, runs the checks, reverts.
# prints one line per property: <ID> exit=<code> <first violation kinds>
set -u
PATCH="$1"; shift
TIER="${1:-quick}"; [ $# -gt 0 ] && shift
PROPS="${*:-C01 C02 C03 C04 C05 C06 C07 C08 C09 C10 C11 C12 C13 C14 C15 C16 C17 C18 C19 C20}"
cd /repo || exit 2
if [ -n "$(git status --porcelain --untracked-files=no)" ]; then echo "/repo has local changes; refusing" >&2; exit 2; fi
git apply "$PATCH" || { echo "patch does not apply" >&2; exit 2; }
trap 'cd /repo && git checkout -- . && cd /verif/harness && cargo build --quiet 2>/dev/null' EXIT
cd /verif
for p in $PROPS; do
  out=$(./check "$p" "$TIER" 2>&1); code=$?
  kinds=$(echo "$out" | grep "violated:" | sed 's/^ *violated: //' | cut -d' ' -f1 | sort | uniq -c | sort -rn | head -4 | awk '{printf "%s(x%s) ", $2, $1}')
  echo "$p exit=$code $kinds"
  if [ $code -eq 2 ]; then echo "$out" | tail -5 | sed 's/^/    /'; fi
done
