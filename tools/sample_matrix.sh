#!/bin/bash
# usage: sample_matrix.sh <N> [out.tsv] — N seeded mutants (deterministic sample over all rounds) against their own
# property's quick check; no rebuild between mutants (each check rebuilds from the mutated tree anyway).
N="${1:-40}"; OUT="${2:-/verif/seeded/matrix_final.tsv}"
cd /verif
if [ -n "$(git -C /repo status --porcelain --untracked-files=no)" ]; then echo "/repo dirty" >&2; exit 2; fi
: > "$OUT"
ls -d seeded/*/ | python3 -c "
import sys,random,json
ds=[l.strip().rstrip('/') for l in sys.stdin]
ds=[d for d in ds if __import__('os').path.exists(d+'/meta.json')]
random.Random(7).shuffle(ds)
print('\n'.join(ds[:$N]))" | while read d; do
  id=$(basename "$d"); prop=$(jq -r .property_broken "$d/meta.json"); by=$(jq -r .detected_by "$d/meta.json")
  # the check expected to catch it at quick: own property unless detected_by names only another one
  chk=$prop; echo "$by" | grep -q "^$prop\|$prop quick\|$prop," || chk=$(echo "$by" | grep -o 'C[0-9][0-9]' | head -1)
  tier=quick; echo "$by" | grep -q "^$chk thorough\|not in quick" && tier=thorough
  git -C /repo apply "/verif/$d/patch.diff" || { echo -e "$id\t$chk\tPATCH-FAILS" >> "$OUT"; continue; }
  out=$(./check "$chk" "$tier" 2>&1); code=$?
  git -C /repo checkout -- .
  kinds=$(echo "$out" | grep "violated:" | sed 's/^ *violated: //' | cut -d' ' -f1 | sort | uniq -c | sort -rn | head -3 | awk '{printf "%s(x%s) ", $2, $1}')
  echo -e "$id\t$chk $tier\texit=$code\t$kinds" >> "$OUT"
done
git -C /repo checkout -- . ; (cd /verif/harness && cargo build --quiet 2>/dev/null)
echo done >> "$OUT"
