//! libFuzzer target for C18: totality of every decoding entry point, and for
//! inputs that are valid BOLT streams the differential / round-trip oracle.
#![no_main]
#![allow(dead_code)]
use libfuzzer_sys::fuzz_target;

#[path = "/repo/src/tlv.rs"]
mod tlv;
#[path = "../../src/refmodel.rs"]
mod refmodel;

use tlv::{FromBytes, SerializedTlvStream, TlvEntry, ToBytes};

fuzz_target!(|data: &[u8]| {
    // (1) totality: must return (a panic aborts the process = crash artifact)
    let r = SerializedTlvStream::from_bytes(data.to_vec());
    let _ = SerializedTlvStream::try_from(data.to_vec());
    let _ = serde_json::from_value::<SerializedTlvStream>(serde_json::Value::String(hex::encode(data)));
    // (2) valid stream => equals the reference, re-encodes byte for byte
    if let Ok(recs) = refmodel::decode_stream_strict(data) {
        let got = r.expect("valid BOLT stream rejected");
        let want = SerializedTlvStream::from(recs.iter().map(|(t, v)| TlvEntry { typ: *t, value: v.clone() }).collect::<Vec<_>>());
        assert_eq!(got, want, "decode differs from reference");
        assert_eq!(SerializedTlvStream::to_bytes(got), data, "re-encoding differs");
        // length-prefixed entry point agrees
        let p = refmodel::encode_payload(&recs);
        let viap = SerializedTlvStream::try_from(p).expect("valid payload rejected");
        assert_eq!(viap, want, "payload decode differs");
    }
    // (3) whatever decoded re-encodes to something that decodes to the same records
    if let Ok(s) = SerializedTlvStream::from_bytes(data.to_vec()) {
        let again = SerializedTlvStream::from_bytes(SerializedTlvStream::to_bytes(s.clone())).expect("own encoding rejected");
        assert_eq!(again, s, "encode/decode not idempotent");
    }
});
