//! libFuzzer target for C06: bytes -> requests + stub collaborator answers ->
//! real HtlcManager on a paused runtime; see harness/src/reqfuzz.rs.
#![no_main]
#![allow(dead_code, unused_imports)]
use anyhow::Error;
use libfuzzer_sys::fuzz_target;

#[path = "/repo/src/block_watcher.rs"]
mod block_watcher;
#[path = "/repo/src/cln_plugin/mod.rs"]
mod cln_plugin;
#[path = "/repo/src/email.rs"]
mod email;
#[path = "/repo/src/htlc_manager.rs"]
mod htlc_manager;
#[path = "/repo/src/messages.rs"]
mod messages;
#[path = "/repo/src/payment_provider.rs"]
mod payment_provider;
#[path = "/repo/src/rpc.rs"]
mod rpc;
#[path = "/repo/src/store.rs"]
mod store;
#[path = "/repo/src/tlv.rs"]
mod tlv;
#[path = "../../src/reqfuzz.rs"]
mod reqfuzz;

fuzz_target!(|data: &[u8]| {
    if let Err(e) = reqfuzz::run_one(data) {
        panic!("C06 oracle: {e}");
    }
});
