//! The same `messages.rs` / `tlv.rs`, compiled WITHOUT overflow checks (the
//! workspace profile sets `overflow-checks = false` for this package only), so
//! that C12 is decided for the wrapping (release-like) build as well.
#![allow(dead_code, unused_imports)]
#[path = "/repo/src/messages.rs"]
pub mod messages;
#[path = "/repo/src/tlv.rs"]
pub mod tlv;

pub fn fee_sufficient_wrapping(base: u32, ppm: u32, delta: u16, total: u64, amount: u64) -> bool {
    messages::TrampolineRoutingPolicy {
        fee_base_msat: base,
        fee_proportional_millionths: ppm,
        cltv_expiry_delta: delta,
    }
    .fee_sufficient(total, amount)
}

/// Witness that this crate really is compiled with wrapping arithmetic.
pub fn wraps(a: u64, b: u64) -> u64 {
    a + b
}
