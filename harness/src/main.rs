#![allow(dead_code, unused_imports)]
use anyhow::Error;

#[path = "/repo/src/block_watcher.rs"]
mod block_watcher;
#[path = "/repo/src/cln_plugin/mod.rs"]
mod cln_plugin;
#[path = "/repo/src/email.rs"]
mod email;
#[path = "/repo/src/htlc_manager.rs"]
mod htlc_manager;
#[path = "/repo/src/messages.rs"]
mod messages;
#[path = "/repo/src/payment_provider.rs"]
mod payment_provider;
#[path = "/repo/src/rpc.rs"]
mod rpc;
#[path = "/repo/src/store.rs"]
mod store;
#[path = "/repo/src/tlv.rs"]
mod tlv;

mod e2e;
mod fuzzdrv;
mod gen;
mod monitors;
mod node;
mod scen;
mod world;
mod props;
mod refmodel;
mod reqfuzz;
mod runner;

use runner::Tier;

thread_local! {
    pub static PANICS: std::cell::Cell<u64> = const { std::cell::Cell::new(0) };
    pub static LAST_PANIC: std::cell::RefCell<String> = const { std::cell::RefCell::new(String::new()) };
    /// every panic message of this thread, in order (index = value of PANICS before the panic)
    pub static PANIC_MSGS: std::cell::RefCell<Vec<String>> = const { std::cell::RefCell::new(Vec::new()) };
}

/// panics of threads named "par-<n>" (the PAR engine's runtime workers), keyed by thread name
pub static PAR_PANICS: std::sync::Mutex<Vec<(String, String)>> = std::sync::Mutex::new(Vec::new());

fn install_panic_hook() {
    let verbose = std::env::var("VERIF_VERBOSE").is_ok();
    let default = std::panic::take_hook();
    std::panic::set_hook(Box::new(move |info| {
        PANICS.with(|p| p.set(p.get() + 1));
        let msg = format!("{info}");
        LAST_PANIC.with(|l| *l.borrow_mut() = msg.chars().take(300).collect());
        PANIC_MSGS.with(|l| l.borrow_mut().push(msg.chars().take(300).collect()));
        if let Some(n) = std::thread::current().name() {
            if n.starts_with("par-") {
                if let Ok(mut g) = PAR_PANICS.lock() {
                    g.push((n.to_string(), msg.chars().take(300).collect()));
                }
            }
        }
        if verbose {
            default(info);
        }
    }));
}

fn usage() -> ! {
    eprintln!("usage: verif run <C01..C20> <quick|thorough> | verif replay <file>");
    std::process::exit(2)
}

fn tune_malloc() {
    // 16 worker threads freeing large buffers make glibc munmap/trim all the
    // time; the TLB shootdowns serialise the workers (measured: 40x slowdown).
    unsafe {
        libc::mallopt(libc::M_MMAP_THRESHOLD, 1 << 30);
        libc::mallopt(libc::M_TRIM_THRESHOLD, 1 << 30);
        libc::mallopt(libc::M_TOP_PAD, 64 << 20);
    }
}

fn main() {
    // anyhow captures a backtrace for every error when RUST_BACKTRACE is set;
    // capture takes a process-wide lock, which serialises the 16 workers.
    std::env::set_var("RUST_LIB_BACKTRACE", "0");
    tune_malloc();
    install_panic_hook();
    let args: Vec<String> = std::env::args().collect();
    if args.len() < 3 {
        usage();
    }
    match args[1].as_str() {
        "run" => {
            let tier = match args.get(3).map(|s| s.as_str()) {
                Some("quick") | None => Tier::Quick,
                Some("thorough") => Tier::Thorough,
                _ => usage(),
            };
            let seed = runner::seed_from_env();
            let code = match args[2].as_str() {
                p @ ("C01" | "C02" | "C03" | "C04" | "C05" | "C07" | "C08" | "C11") => props::worldprops::run_world_check(props::worldprops::spec(p).unwrap(), tier, seed),
                "C06" => props::c06::run(tier, seed),
                "C09" => props::worldprops::run_c09(tier, seed),
                "C10" => props::c10::run(tier, seed),
                "C13" => props::c13::run(tier, seed),
                "C14" => props::c14::run(tier, seed),
                "C15" => props::provider::run_c15(tier, seed),
                "C17" => props::c17::run(tier, seed),
                "C19" => props::c19::run(tier, seed),
                "C20" => props::c20::run(tier, seed),
                "C16" => props::provider::run_c16(tier, seed),
                "C12" => props::c12::run(tier, seed),
                "C18" => props::c18::run(tier, seed),
                _ => usage(),
            };
            std::process::exit(code);
        }
        "gen" => {
            // print the i-th scenario of a named structured generator as a replay file (debugging aid)
            use proptest::strategy::{Strategy, ValueTree};
            let mut runner = proptest::test_runner::TestRunner::deterministic();
            let strat = match args[2].as_str() {
                "after_failed" => props::worldprops::after_failed_attempts_strategy(),
                "overlap" => props::worldprops::overlap_strategy(),
                _ => usage(),
            };
            let n: usize = args.get(3).and_then(|x| x.parse().ok()).unwrap_or(0);
            let mut scn = strat.new_tree(&mut runner).unwrap().current();
            for _ in 0..n {
                scn = strat.new_tree(&mut runner).unwrap().current();
            }
            println!("{}", serde_json::json!({"property": args.get(4).cloned().unwrap_or("C11".into()), "engine": "world", "case": scn}));
        }
        "smoke" => {
            // generate N scenarios with the default profile, print the last trace and all violations
            use proptest::strategy::{Strategy, ValueTree};
            let n: usize = args[2].parse().unwrap_or(1);
            let mut runner = proptest::test_runner::TestRunner::deterministic();
            let strat = scen::scenario_strategy(scen::Profile::default());
            let mut counts = std::collections::BTreeMap::new();
            let t0 = std::time::Instant::now();
            for i in 0..n {
                let scn = strat.new_tree(&mut runner).unwrap().current();
                let out = props::worldprops::run_world(&scn);
                for v in &out.violations {
                    let e = counts.entry(format!("{}:{}", v.prop, v.kind)).or_insert((0usize, String::new(), 0usize));
                    e.0 += 1;
                    if e.1.is_empty() { e.1 = v.detail.clone(); e.2 = i; }
                }
                if i + 1 == n || std::env::var("VERIF_DUMP").ok().and_then(|s| s.parse::<usize>().ok()) == Some(i) {
                    println!("{}", serde_json::to_string_pretty(&props::worldprops::describe(&scn)).unwrap());
                    for l in &out.trace { println!("{l}"); }
                    println!("{:?}", out.stats);
                    for v in &out.violations { println!("VIOL {} {} {}", v.prop, v.kind, v.detail); }
                }
            }
            println!("{} scenarios in {:.2}s", n, t0.elapsed().as_secs_f64());
            for (k, (c, d, i)) in counts { println!("{c:6} {k}  e.g. case {i}: {d}"); }
        }
        "replay" => {
            let text = std::fs::read_to_string(&args[2]).unwrap_or_else(|e| {
                eprintln!("cannot read {}: {e}", args[2]);
                std::process::exit(2)
            });
            let v: serde_json::Value = serde_json::from_str(&text).unwrap_or_else(|e| {
                eprintln!("bad json: {e}");
                std::process::exit(2)
            });
            let prop = v["property"].as_str().unwrap_or("").to_string();
            let engine = v["engine"].as_str().unwrap_or("").to_string();
            let case = v["case"].clone();
            let leaked: &'static str = Box::leak(prop.clone().into_boxed_str());
            let rep = match prop.as_str() {
                _ if engine == "e2e-batch" => e2e::replay_batch(leaked, case),
                _ if engine == "e2e-height" => e2e::replay_height(case),
                _ if engine == "e2e-poll" => e2e::replay_poll(case),
                _ if engine == "e2e-isolation" => e2e::replay_isolation(case),
                _ if engine == "e2e-err-text" => e2e::replay_err_text(case),
                _ if engine == "e2e-paid-earlier" => e2e::replay_paid_earlier(leaked, case),
                _ if engine == "e2e-inflight-notify" => e2e::replay_inflight_notify(case),
                _ if engine == "e2e-config" => props::c19::replay(case),
                _ if engine == "e2e-slow-pay" => e2e::replay_slow_pay(case),
                _ if engine == "par" => props::par::replay(leaked, case),
                _ if engine == "par-many" => props::par::replay_many(case),
                _ if engine == "fuzz-request" => {
                    let bytes = hex::decode(case["input"].as_str().unwrap_or("")).unwrap_or_default();
                    let before = PANICS.with(|p| p.get());
                    let r = std::panic::catch_unwind(|| reqfuzz::run_one(&bytes));
                    let mut rep = runner::CaseReport::default();
                    match r {
                        Ok(Ok(_)) if PANICS.with(|p| p.get()) == before => {}
                        Ok(Ok(_)) => rep.violations.push(runner::Violation::new(leaked, "task_panicked", format!("a task panicked: {}", LAST_PANIC.with(|l| l.borrow().clone())))),
                        Ok(Err(e)) => rep.violations.push(runner::Violation::new(leaked, "fuzz_oracle", e)),
                        Err(_) => rep.violations.push(runner::Violation::new(leaked, "panic", "run_one panicked".into())),
                    }
                    Some(rep)
                }
                "C13" => props::c13::replay(&engine, case),
                "C14" => props::c14::replay(&engine, case),
                "C17" => props::c17::replay(&engine, case),
                "C20" if engine != "e2e-height" => props::c20::replay(&engine, case),
                _ if engine == "world" => {
                    let p: &'static str = Box::leak(prop.clone().into_boxed_str());
                    props::worldprops::replay_world(p, case)
                }
                "C12" => props::c12::replay(&engine, case),
                "C18" => props::c18::replay(&engine, case),
                _ => None,
            };
            let Some(rep) = rep else {
                eprintln!("cannot replay property {prop} engine {engine}");
                std::process::exit(2)
            };
            let known = runner::Known::load();
            let mut bad = 0;
            for viol in rep.violations.iter().filter(|x| x.prop == prop) {
                if let Some(k) = known.matches(viol) {
                    println!("KNOWN-FINDING: property={} {}", prop, k.what);
                } else {
                    println!("  violated: {} — {}", viol.kind, viol.detail);
                    bad += 1;
                }
            }
            if bad > 0 {
                println!("VIOLATION property={} replay={}", prop, args[2]);
                std::process::exit(1);
            }
            println!("replay: property {prop} held");
        }
        _ => usage(),
    }
}
