//! Property monitors over the WORLD event stream. Every monitor is phrased at a
//! node-side instant; the node state only changes in driver steps, so the
//! state seen here is exactly the state at the instant of the event.
use crate::node::*;
use crate::refmodel::*;
use crate::runner::Violation;
use crate::scen::*;
use crate::world::{Ev, Rec as LogRec, Shared};
use secp256k1::hashes::{sha256, Hash};
use serde_json::{json, Value};
use std::collections::{BTreeMap, BTreeSet};

#[derive(Default, Clone, Debug)]
pub struct Stats {
    pub lifetimes: u32,
    pub crashes: u32,
    pub pays: u32,
    pub resolves: u32,
    pub fails: u32,
    pub continues: u32,
    pub parts: u32,
    pub parts_completed: u32,
    pub write_faults_hit: u32,
    pub read_faults_hit: u32,
    pub hashes_with_trampoline: usize,
    pub answered_after_attempt: u32,
    pub multi_htlc_pay: u32,
    pub pay_after_restart: u32,
    pub max_batch: usize,
    pub rejecting_in_multi: u32,
    pub earlier_attempt_when_ready: u32,
    pub state_write_after_part: u32,
    pub c04_nontrivial: u32,
    pub c11_judged: u32,
    pub c11_multi_or_restart: u32,
    pub c12_clause: u32,
    pub rewrite_branch: u32,
    pub nontramp_multi_record: u32,
    pub nontramp_answered: u32,
    pub probe_runs: u32,
    pub probe_left_pending: u32,
    pub height_changes: u32,
    pub part_changed_during_wait: u32,
    pub pay_left_live: u32,
    pub calls_done: u32,
    pub undeserialisable: u32,
    pub panics: u32,
    pub hung: u32,
    pub past_classification: u32,
    pub restart_with_pending: u32,
    pub overlap_lifecycles: u32,
}

#[derive(Clone, Debug)]
struct HtlcInfo {
    class: Class,
    hash: [u8; 32],
    /// (bolt11, amount) for Trampoline
    tramp: Option<(String, u64, usize)>,
    /// bolt11 the metadata carries, whatever the HTLC's own hash
    carries: Option<String>,
}

#[derive(Default, Clone, Debug)]
struct Lifecycle {
    open: bool,
    first: Option<usize>,
    set: Vec<usize>,
    sum: u128,
    must_reject: bool,
    reject_expiry: bool,
    any_rejecting: bool,
    pay_issued: bool,
    tainted: bool,
    fetch_answered_ms: Option<u64>,
    fetch_state: Option<&'static str>,
    recovery_done_ms: Option<u64>,
    restart_path_waited: bool,
    started_ms: u64,
    deliver_times: Vec<u64>,
    /// C04: snapshot at the first intent write
    c04_snapshot: Option<(u32, u32, usize)>,
    grid_age_at_start: u64,
    genuine_error: Option<i64>,
    recovery_uid: Option<u64>,
    /// every earlier attempt of this hash in this lifetime was concluded by the plugin itself, without
    /// injected faults, crashes or overlapping lifecycles: the set is one "with no earlier attempt" pending
    hist_clean: bool,
}

#[derive(Default, Clone, Debug)]
struct HashTrack {
    held: Vec<usize>,
    lc: Lifecycle,
    /// HTLCs held when the current pay was issued (C03 clause 3)
    paying: Option<(u64, Vec<usize>)>,
    attempts_seen: u32,
    pending_written_grid: Option<u64>,
    /// this lifetime: a fault was injected on an RPC of the hash / a lifecycle opened while RPCs of an
    /// earlier one were outstanding / lifecycles that ended / the record was Pending when the lifetime began
    faulted_this_life: bool,
    overlap_seen: bool,
    closed_this_life: u32,
    inherited_pending: Option<bool>,
}

pub struct Monitors {
    pub violations: Vec<Violation>,
    pub stats: Stats,
    info: Vec<HtlcInfo>,
    tracks: BTreeMap<[u8; 32], HashTrack>,
    cur_win: u32,
    /// answers of the current window: hash -> (held snapshot before first answer, answers)
    win_answers: BTreeMap<[u8; 32], (Vec<usize>, Vec<(usize, Value, u64)>)>,
    told_height: u32,
    /// maximum height told before the current driver window began (everything told then has been processed by the plugin:
    /// the driver only acts after the system settled; a getinfo answered in the current window may still be in flight)
    told_before_window: u32,
    pub grid_s: u64,
    life: u32,
    deliver_win: BTreeMap<usize, (u32, u64)>,
    rpc_arrivals_total: u32,
    pub trace_fp: u64,
    probe_htlcs: BTreeSet<usize>,
    read_fault_hashes: BTreeSet<[u8; 32]>,
    last_fault: Option<(String, bool)>,
    /// per hash: description of the last injected fault on an RPC of that hash
    fault_ctx: BTreeMap<[u8; 32], String>,
    wait_start_parts: BTreeMap<usize, Vec<(usize, PartStatus)>>,
    height_reads_max: u32,
    pub poll_gaps_ms: Vec<u64>,
    last_poll_answered_ms: Option<u64>,
    first_list_answered: bool,
    changed_after_list: bool,
    poll_outstanding: bool,
    poisoned: BTreeMap<[u8; 32], String>,
    /// last injected read fault (hash, context); a todo!() panic is attributed to that hash
    /// injected read faults on the restart path (listsendpays / waitsendpay before any pay of the lifecycle) that
    /// have not yet been matched with the todo!() panic they lead to, oldest first
    last_read_fault: std::collections::VecDeque<([u8; 32], String)>,
    todo_hashes: BTreeMap<[u8; 32], String>,
    /// RPCs of a hash that have arrived and are not yet answered, in event order
    outstanding: BTreeMap<[u8; 32], i32>,
    grid_at_restart: u64,
    todo_panics: u32,
    pub stale_heights: u32,
    pub failed_polls: u32,
    last_pay_outcome: String,
}

fn sig(kind: &str, extra: Value) -> Value {
    let mut v = json!({ "kind": kind });
    if let Value::Object(m) = extra {
        for (k, x) in m {
            v[k] = x;
        }
    }
    v
}

impl Monitors {
    pub fn new(scn: &Scenario, classes: &[Class]) -> Monitors {
        let mut m = Monitors {
            violations: vec![],
            stats: Stats::default(),
            info: vec![],
            tracks: BTreeMap::new(),
            cur_win: 0,
            win_answers: BTreeMap::new(),
            told_height: 0,
            told_before_window: 0,
            grid_s: 0,
            life: 0,
            deliver_win: BTreeMap::new(),
            rpc_arrivals_total: 0,
            trace_fp: 0xcbf29ce484222325,
            probe_htlcs: BTreeSet::new(),
            read_fault_hashes: BTreeSet::new(),
            last_fault: None,
            fault_ctx: BTreeMap::new(),
            wait_start_parts: BTreeMap::new(),
            height_reads_max: 0,
            poll_gaps_ms: vec![],
            last_poll_answered_ms: None,
            first_list_answered: false,
            changed_after_list: false,
            poll_outstanding: false,
            poisoned: BTreeMap::new(),
            last_read_fault: std::collections::VecDeque::new(),
            todo_hashes: BTreeMap::new(),
            outstanding: BTreeMap::new(),
            grid_at_restart: 0,
            todo_panics: 0,
            stale_heights: 0,
            failed_polls: 0,
            last_pay_outcome: String::new(),
        };
        for (i, c) in classes.iter().enumerate() {
            m.add_htlc(scn, i, c.clone());
        }
        m.stats.hashes_with_trampoline = m.info.iter().filter(|i| i.tramp.is_some()).map(|i| i.hash).collect::<BTreeSet<_>>().len();
        m
    }

    pub fn add_htlc(&mut self, scn: &Scenario, idx: usize, class: Class) {
        let h = &scn.htlcs[idx];
        let hash = scn.htlc_hash(h);
        let tramp = match &class {
            Class::Trampoline { pay, amount, bolt11 } => Some((bolt11.clone(), *amount, *pay)),
            _ => None,
        };
        let carries = if h.raw_payload.is_none() {
            match &h.meta {
                Meta::Normal | Meta::WithAmount(_) | Meta::InvoiceOnly => Some(build_invoice(scn.htlc_payment(h), InvKind::Normal)),
                Meta::FlippedRecid => Some(build_invoice(scn.htlc_payment(h), InvKind::FlippedRecid)),
                Meta::NonMinimalExpiry => Some(build_invoice(scn.htlc_payment(h), InvKind::NonMinimalExpiry)),
                Meta::AltInvoice { amount } => Some(build_invoice(scn.htlc_payment(h), InvKind::Alt(*amount))),
                _ => None,
            }
        } else {
            None
        };
        debug_assert_eq!(self.info.len(), idx);
        self.info.push(HtlcInfo { class, hash, tramp, carries });
    }

    fn v(&mut self, prop: &str, kind: &str, detail: String, extra: Value) {
        self.violations.push(Violation::new(prop, kind, detail).with_sig(sig(kind, extra)));
    }

    fn mix(&mut self, x: u64) {
        self.trace_fp ^= x;
        self.trace_fp = self.trace_fp.wrapping_mul(0x100000001b3);
    }

    fn pay_running_for(s: &Shared, hash: &[u8; 32]) -> usize {
        s.pending.iter().filter(|r| r.method == "pay" && r.hash.as_ref() == Some(hash)).count()
    }

    fn live(s: &Shared, hash: &[u8; 32]) -> bool {
        s.node.live(hash) || Self::pay_running_for(s, hash) > 0
    }

    fn is_rejecting(&self, scn: &Scenario, h: usize, first: usize) -> (bool, bool) {
        let hi = &self.info[h];
        let fi = &self.info[first];
        let (Some((b, a, _)), Some((fb, fa, _))) = (&hi.tramp, &fi.tramp) else { return (false, false) };
        let spec = &scn.htlcs[h];
        let mismatch = b != fb || a != fa;
        let expiry = spec.cltv_rel < scn.cfg_at(self.life).policy_delta as i64;
        let total = spec.total_msat.or(spec.forward_msat).unwrap_or(0);
        let fee = !fee_sufficient_ref(scn.cfg_at(self.life).base, scn.cfg_at(self.life).ppm, total, *a);
        if std::env::var("VERIF_DEBUG").is_ok() {
            eprintln!("is_rejecting h={h} first={first} life={} cfg={:?} total={total} a={a} mismatch={mismatch} expiry={expiry} fee={fee}", self.life, scn.cfg_at(self.life));
        }
        (mismatch || expiry || fee, expiry && !mismatch)
    }

    fn finalize_window(&mut self, s: &Shared, scn: &Scenario) {
        let wa = std::mem::take(&mut self.win_answers);
        for (hash, (snapshot, answers)) in wa {
            let answered: BTreeSet<usize> = answers.iter().map(|a| a.0).collect();
            self.stats.max_batch = self.stats.max_batch.max(answers.len());
            let rest: Vec<usize> = snapshot.iter().filter(|h| !answered.contains(h)).cloned().collect();
            if !rest.is_empty() {
                self.v(
                    "C07",
                    "partial_resolution",
                    format!("hash {}: HTLCs {:?} answered in one instant while {:?} of the same set stayed held", hex::encode(&hash[..4]), answered, rest),
                    json!({}),
                );
            }
            let first = &answers[0].1;
            if answers.iter().any(|a| &a.1 != first) {
                self.v(
                    "C07",
                    "different_responses",
                    format!("hash {}: responses differ within one resolution: {:?}", hex::encode(&hash[..4]), answers.iter().map(|a| (a.0, a.1.to_string())).collect::<Vec<_>>()),
                    json!({}),
                );
            }
            // lifecycle bookkeeping
            let t_ans = answers[0].2;
            let track = self.tracks.entry(hash).or_default();
            if track.held.is_empty() && track.lc.open {
                track.closed_this_life += 1;
                let lc = std::mem::take(&mut track.lc);
                self.close_lifecycle(s, scn, &hash, lc, &answers, t_ans);
            }
        }
    }

    fn close_lifecycle(&mut self, s: &Shared, scn: &Scenario, hash: &[u8; 32], lc: Lifecycle, answers: &[(usize, Value, u64)], t_ans: u64) {
        let cfg = &scn.cfg_at(self.life).clone();
        let first = lc.first.unwrap();
        let (_, amount, _) = self.info[first].tramp.clone().unwrap();
        let funded = fee_sufficient_ref(cfg.base, cfg.ppm, lc.sum.min(u64::MAX as u128) as u64, amount);
        let resp = &answers[0].1;
        let is_fail = resp["result"] == "fail";
        let msg = resp["failure_message"].as_str().unwrap_or("").to_string();
        let t_ms = cfg.mpp_timeout_s * 1000;
        if lc.set.len() > 1 && lc.any_rejecting {
            self.stats.rejecting_in_multi += 1;
        }
        // ---- C12 world clause: first HTLC failing the fee test / expiry gate
        let first_spec = &scn.htlcs[first];
        let first_total = first_spec.total_msat.or(first_spec.forward_msat).unwrap_or(0);
        let first_fee_fails = !fee_sufficient_ref(cfg.base, cfg.ppm, first_total, amount);
        let first_expiry_fails = first_spec.cltv_rel < cfg.policy_delta as i64;
        // "no earlier attempt on record" (C12 clause): what the plugin read
        let fresh_record = matches!(lc.fetch_state, Some("Absent") | Some("Free"));
        // C11 timing: also a stale in-flight marker left by attempts the plugin itself had concluded
        let fresh = fresh_record || (lc.hist_clean && lc.fetch_state == Some("Pending"));
        if (first_fee_fails || first_expiry_fails) && fresh_record && cfg.mpp_timeout_s != 0 && !lc.tainted {
            self.stats.c12_clause += 1;
            let want = hex::encode(fee_failure_ref(cfg.base, cfg.ppm, cfg.policy_delta));
            let first_answer = answers.iter().find(|a| a.0 == first).map(|a| a.1.clone());
            if let Some(a) = first_answer {
                if !(a["result"] == "fail" && a["failure_message"] == want) {
                    self.v(
                        "C12",
                        "first_htlc_not_rejected_with_policy",
                        format!("first HTLC {first} (declared total {first_total}, amount {amount}, rel expiry {}) answered {a} instead of fail {want}", first_spec.cltv_rel),
                        json!({}),
                    );
                }
            }
        }
        if std::env::var("VERIF_DEBUG").is_ok() {
            eprintln!("close_lifecycle set={:?} funded={funded} rejecting={} tainted={} pay={} fetch={:?}/{:?} hist_clean={} genuine={:?} t_ans={t_ans} fresh={fresh}", lc.set, lc.any_rejecting, lc.tainted, lc.pay_issued, lc.fetch_answered_ms, lc.fetch_state, lc.hist_clean, lc.genuine_error);
        }
        // ---- C11 / C06 timing: sets that never reach the total
        if !funded && !lc.any_rejecting && !lc.tainted && !lc.pay_issued && lc.fetch_answered_ms.is_some() && !self.read_fault_hashes.contains(hash) {
            let live_now = Self::live(s, hash);
            let complete = s.node.has_complete(hash);
            if !complete && !live_now {
                self.stats.c11_judged += 1;
                let multi = lc.deliver_times.iter().collect::<BTreeSet<_>>().len() > 1;
                if multi || self.life > 0 {
                    self.stats.c11_multi_or_restart += 1;
                }
                let want = "2019";
                if !is_fail || msg != want {
                    self.v(
                        "C11",
                        "wrong_answer_for_incomplete_set",
                        format!("incomplete set {:?} answered {resp} instead of fail {want} (stored state at fetch: {:?}, RPC error in this lifecycle: {:?})", lc.set, lc.fetch_state, lc.genuine_error),
                        json!({"answer": resp["failure_message"], "fetch_state": lc.fetch_state, "rpc_error": lc.genuine_error}),
                    );
                }
                let t0 = lc.fetch_answered_ms.unwrap();
                if lc.genuine_error.is_some() {
                    // an RPC error ended this lifecycle: only the answer code is judged (above)
                } else if fresh {
                    if t_ans + 1 < t0 + t_ms {
                        self.v(
                            "C11",
                            "failed_before_timeout",
                            format!("incomplete set {:?} failed at {t_ans} ms, state fetch answered at {t0} ms, timeout {t_ms} ms", lc.set),
                            json!({}),
                        );
                    }
                    if t_ans > t0 + t_ms + 1000 {
                        let d = format!("incomplete set {:?} failed at {t_ans} ms, more than the timeout {t_ms} ms after the state fetch at {t0} ms", lc.set);
                        self.v("C11", "failed_late", d.clone(), json!({}));
                        self.v("C06", "answered_later_than_mpp_timeout", d, json!({}));
                    }
                } else if let Some(t1) = lc.recovery_done_ms {
                    if t_ans > t1 + t_ms + 1000 {
                        let d = format!("after restart: incomplete set {:?} failed at {t_ans} ms, recovery finished at {t1} ms, timeout {t_ms} ms", lc.set);
                        self.v("C11", "restart_grants_more_than_one_period", d.clone(), json!({}));
                        self.v("C06", "answered_later_than_mpp_timeout", d, json!({}));
                    }
                    if lc.grid_age_at_start >= cfg.mpp_timeout_s + 5 && t_ans > t1 + 1000 {
                        self.v(
                            "C11",
                            "old_attempt_not_failed_immediately",
                            format!("attempt aged {} s >= timeout {} s, but set {:?} failed {} ms after the recovery", lc.grid_age_at_start, cfg.mpp_timeout_s, lc.set, t_ans - t1),
                            json!({}),
                        );
                    }
                }
            }
        }
    }

    pub fn on_event(&mut self, rec: &LogRec, s: &Shared, scn: &Scenario, _classes: &[Class]) {
        if rec.win != self.cur_win {
            self.finalize_window(s, scn);
            self.told_before_window = self.told_height;
            self.cur_win = rec.win;
        }
        let cfg = scn.cfg_at(self.life).clone();
        if scn.manual_getinfo {
            // C20: while the watcher runs, the next poll request arrives within 60 s of the previous answer
            if let (Some(prev), false) = (self.last_poll_answered_ms, self.poll_outstanding) {
                if rec.t_ms > prev + 62_000 && rec.life == self.life && !matches!(rec.ev, Ev::RpcArrive { .. }) {
                    self.v("C20", "poll_overdue", format!("no getinfo poll within 62 s of the previous answer (answered at {prev} ms, now {} ms)", rec.t_ms), json!({}));
                    self.last_poll_answered_ms = None;
                }
            }
            match &rec.ev {
                Ev::RpcArrive { method, .. } if method == "getinfo" => {
                    if let Some(prev) = self.last_poll_answered_ms {
                        let gap = rec.t_ms.saturating_sub(prev);
                        self.poll_gaps_ms.push(gap);
                        if gap > 62_000 {
                            self.v("C20", "poll_late", format!("poll request arrived {gap} ms after the previous answer"), json!({}));
                        }
                    }
                    self.poll_outstanding = true;
                }
                Ev::RpcAnswer { method, ok, .. } if method == "getinfo" => {
                    self.poll_outstanding = false;
                    self.last_poll_answered_ms = Some(rec.t_ms);
                    if !*ok {
                        self.failed_polls += 1;
                    }
                }
                Ev::HeightTold { h, .. } => {
                    if *h <= self.told_height && self.told_height > 0 {
                        self.stale_heights += 1;
                    }
                }
                _ => {}
            }
        }
        match &rec.ev {
            Ev::LifetimeStart => {
                self.stats.lifetimes += 1;
                self.life = rec.life;
                self.outstanding.clear();
                self.told_height = 0;
                self.told_before_window = 0;
                self.height_reads_max = 0;
                self.last_poll_answered_ms = None;
                self.poll_outstanding = false;
                for (_, t) in self.tracks.iter_mut() {
                    t.held.clear();
                    t.lc = Lifecycle::default();
                    t.paying = None;
                    t.faulted_this_life = false;
                    t.overlap_seen = false;
                    t.closed_this_life = 0;
                    t.inherited_pending = None;
                }
                self.mix(1);
            }
            Ev::Crash { down_s, .. } => {
                self.stats.crashes += 1;
                self.grid_s += down_s;
                // stored attempt times are aged by the engine exactly here (at the crash), up to this grid time
                self.grid_at_restart = self.grid_s;
                self.mix(2 + down_s);
                let any_pending = self.tracks.keys().any(|h| s.node.stored_state(h).0 == "Pending");
                if any_pending {
                    self.stats.restart_with_pending += 1;
                }
            }
            Ev::ClockBack { secs } => {
                // stored attempt times moved `secs` into the future: they count as written that much later
                for (_, t) in self.tracks.iter_mut() {
                    if let Some(w) = t.pending_written_grid.as_mut() {
                        *w += secs;
                    }
                }
                self.mix(3 + secs);
            }
            Ev::Tick { secs } => {
                self.grid_s += secs;
                self.mix(1000 + secs);
            }
            Ev::HeightTold { h, via } => {
                if *h != self.told_height {
                    self.stats.height_changes += 1;
                }
                if self.told_height == 0 {
                    // the startup query: start() returns only after its answer was applied
                    self.told_before_window = *h;
                }
                self.told_height = self.told_height.max(*h);
                let _ = via;
            }
            Ev::NodeHeight { .. } => {}
            Ev::Deliver { h, replay } => {
                self.mix(10 + *replay as u64);
                self.deliver_win.insert(*h, (rec.win, rec.t_ms));
                let info = self.info[*h].clone();
                if info.tramp.is_some() {
                    self.stats.past_classification += 1;
                    let live = Self::live(s, &info.hash);
                    let stored = s.node.stored_state(&info.hash).0;
                    let open = self.tracks.get(&info.hash).map(|t| t.lc.open).unwrap_or(false);
                    if !open {
                        // (counted from the event order: `s.pending` already contains what arrived later in this window)
                        let rpcs_outstanding = self.outstanding.get(&info.hash).cloned().unwrap_or(0) > 0;
                        let t = self.tracks.entry(info.hash).or_default();
                        if t.inherited_pending.is_none() {
                            t.inherited_pending = Some(stored == "Pending" && t.closed_this_life == 0);
                        }
                        if rpcs_outstanding {
                            t.overlap_seen = true;
                        }
                        let hist_clean = t.inherited_pending == Some(false) && !t.faulted_this_life && !t.overlap_seen && t.closed_this_life >= 1;
                        if std::env::var("VERIF_DEBUG").is_ok() {
                            eprintln!("open lifecycle h={h} inherited={:?} faulted={} overlap={} closed={} stored={stored}", t.inherited_pending, t.faulted_this_life, t.overlap_seen, t.closed_this_life);
                        }
                        t.lc = Lifecycle { open: true, first: Some(*h), started_ms: rec.t_ms, hist_clean, ..Default::default() };
                        if let Some(w) = t.pending_written_grid {
                            t.lc.grid_age_at_start = self.grid_s.saturating_sub(w);
                        }
                        if live || stored == "Pending" {
                            self.stats.earlier_attempt_when_ready += 1;
                        }
                    }
                    let first = self.tracks[&info.hash].lc.first.unwrap();
                    let (rejecting, expiry_only) = self.is_rejecting(scn, *h, first);
                    let (_, first_amount, _) = self.info[first].tramp.clone().unwrap();
                    let t = self.tracks.get_mut(&info.hash).unwrap();
                    let funded_before = fee_sufficient_ref(cfg.base, cfg.ppm, t.lc.sum.min(u64::MAX as u128) as u64, first_amount);
                    if rejecting {
                        t.lc.any_rejecting = true;
                        if !funded_before && !t.lc.pay_issued {
                            t.lc.must_reject = true;
                            t.lc.reject_expiry |= expiry_only;
                        }
                    }
                    t.lc.sum += scn.htlcs[*h].amount_msat as u128;
                    t.lc.set.push(*h);
                    t.lc.deliver_times.push(rec.t_ms / 1000);
                    t.held.push(*h);
                }
            }
            Ev::HtlcAnswer { h, resp } => {
                let info = self.info[*h].clone();
                let result = resp["result"].as_str().unwrap_or("").to_string();
                self.mix(match result.as_str() {
                    "continue" => 20,
                    "fail" => 21,
                    "resolve" => 22,
                    _ => 23,
                });
                match result.as_str() {
                    "continue" => self.stats.continues += 1,
                    "fail" => self.stats.fails += 1,
                    "resolve" => self.stats.resolves += 1,
                    _ => {}
                }
                // ---- C06: well-formed response
                let well_formed = match result.as_str() {
                    "continue" => resp.get("payload").map(|p| p.as_str().map(|s| hex::decode(s).is_ok()).unwrap_or(false)).unwrap_or(true),
                    "fail" => resp["failure_message"].as_str().map(|s| hex::decode(s).map(|b| b.len() >= 2).unwrap_or(false)).unwrap_or(false),
                    "resolve" => resp["payment_key"].as_str().map(|s| hex::decode(s).is_ok()).unwrap_or(false),
                    _ => false,
                };
                if !well_formed {
                    self.v("C06", "malformed_response", format!("HTLC {h} answered {resp}"), json!({}));
                }
                // ---- C12: every fee-or-expiry failure carries the configured policy
                if result == "fail" {
                    let m = resp["failure_message"].as_str().unwrap_or("");
                    if m.starts_with("201a") && m != hex::encode(fee_failure_ref(cfg.base, cfg.ppm, cfg.policy_delta)) {
                        self.v("C12", "failure_carries_wrong_policy", format!("HTLC {h} failed with {m}, configured policy ({}, {}, {})", cfg.base, cfg.ppm, cfg.policy_delta), json!({}));
                    }
                }
                let (dwin, _) = self.deliver_win.get(h).cloned().unwrap_or((0, 0));
                // ---- C13 / C10: non-trampoline classes
                match &info.class {
                    Class::NonTrampoline => {
                        self.stats.nontramp_answered += 1;
                        let spec = &scn.htlcs[*h];
                        let invoice_related = !spec.forward && !matches!(spec.meta, Meta::Absent | Meta::RawMeta(_) | Meta::LenPrefixed { .. });
                        if result != "continue" {
                            let d = format!("HTLC {h} ({:?}, forward={}, hash_of={:?}) is not a trampoline request but was answered {resp}", spec.meta, spec.forward, spec.hash_of);
                            self.v("C13", "non_trampoline_not_continued", d.clone(), json!({}));
                            if invoice_related {
                                self.v("C10", "unusable_invoice_treated_as_trampoline", d, json!({"hash_mismatch": spec.hash_of.is_some()}));
                            }
                        } else {
                            if rec.win != dwin {
                                let d = format!("HTLC {h} is not a trampoline request but its `continue` came only after an external event (delivered in window {dwin}, answered in {})", rec.win);
                                self.v("C13", "non_trampoline_waited", d.clone(), json!({}));
                                if invoice_related {
                                    self.v("C10", "unusable_invoice_treated_as_trampoline", d, json!({"hash_mismatch": spec.hash_of.is_some()}));
                                }
                            }
                            // payload rewrite: only the type-16 record may disappear
                            let recs = scn.payload_records(spec);
                            if recs.len() >= 2 {
                                self.stats.nontramp_multi_record += 1;
                            }
                            if let Some(p) = resp.get("payload").and_then(|p| p.as_str()) {
                                self.stats.rewrite_branch += 1;
                                let want: Vec<crate::refmodel::Rec> = recs.into_iter().filter(|r| r.0 != TLV_META).collect();
                                if hex::encode(encode_stream(&want)) != p {
                                    self.v("C13", "payload_rewrite_changed_other_records", format!("HTLC {h}: payload {p}, expected {}", hex::encode(encode_stream(&want))), json!({}));
                                }
                            }
                        }
                    }
                    Class::SelfHintRejected => {
                        if result != "fail" {
                            self.v("C10", "self_route_hint_not_failed", format!("HTLC {h} has the local node as last hop of a route hint (disallowed) but was answered {resp}"), json!({}));
                        } else if rec.win != dwin {
                            self.v("C10", "self_route_hint_held", format!("HTLC {h} (self route hint, disallowed) was held instead of failed at once"), json!({}));
                        }
                    }
                    _ => {}
                }
                // ---- C01: settle only with a preimage of the HTLC's own hash
                if result == "resolve" {
                    let key = hex::decode(resp["payment_key"].as_str().unwrap_or("")).unwrap_or_default();
                    let hh = sha256::Hash::hash(&key).to_byte_array();
                    if hh != info.hash {
                        self.v(
                            "C01",
                            "resolve_wrong_preimage",
                            format!("HTLC {h} with hash {} settled with a key hashing to {}", hex::encode(&info.hash[..6]), hex::encode(&hh[..6])),
                            json!({}),
                        );
                    } else {
                        let from_part = s.node.has_complete(&info.hash);
                        let from_record = match s.node.stored_state(&info.hash) {
                            ("Succeeded", Some(v)) => v["Succeeded"]["preimage"].as_array().map(|a| a.iter().filter_map(|x| x.as_u64()).map(|x| x as u8).collect::<Vec<u8>>() == key).unwrap_or(false),
                            _ => false,
                        };
                        if !from_part && !from_record {
                            self.v("C01", "resolve_without_completed_payment", format!("HTLC {h} settled although no outgoing part of its hash completed and no Succeeded record exists"), json!({}));
                        }
                    }
                }
                if let Some((_, _, _pay)) = &info.tramp {
                    let hash = info.hash;
                    let live = Self::live(s, &hash);
                    let attempts = self.tracks.get(&hash).map(|t| t.attempts_seen).unwrap_or(0);
                    if attempts > 0 {
                        self.stats.answered_after_attempt += 1;
                    }
                    // ---- C02: never fail while the outgoing payment can succeed
                    if result == "fail" && live {
                        let ctx = self.fault_ctx.get(&hash).cloned().unwrap_or_else(|| "none".into());
                        let d = format!(
                            "HTLC {h} failed with {} while hash {} has pending/complete parts {:?} or a running pay ({}); last injected fault on this hash: {ctx}",
                            resp["failure_message"],
                            hex::encode(&hash[..4]),
                            s.node.parts.iter().filter(|p| p.hash == hash).map(|p| (p.uid, p.status)).collect::<Vec<_>>(),
                            Self::pay_running_for(s, &hash)
                        );
                        // Consequences of one root cause are keyed to it: once an RPC error inside wait_payment
                        // (after pay) made the plugin give up a payment whose parts were live, the record is Free
                        // although parts exist, and later HTLCs of that hash are judged against that wrong record.
                        let sig = match self.poisoned.get(&hash) {
                            Some(root) => json!({"downstream_of": root}),
                            None => json!({"failure": resp["failure_message"], "injected_fault": ctx}),
                        };
                        if ctx.ends_with(":after_pay") && !self.poisoned.contains_key(&hash) {
                            self.poisoned.insert(hash, ctx.clone());
                        }
                        self.v("C02", "fail_while_live", d, sig);
                    }
                    // ---- C03 clause 3: counted HTLCs stay held until the fate is known
                    let t = self.tracks.entry(hash).or_default();
                    if let Some((_uid, set)) = &t.paying {
                        if set.contains(h) {
                            let fate_known = s.node.has_complete(&hash) || (Self::pay_running_for(s, &hash) == 0 && !s.node.has_pending(&hash));
                            if !fate_known {
                                let ctx = self.fault_ctx.get(&hash).cloned().unwrap_or_else(|| "none".into());
                                self.v("C03", "answered_before_fate_known", format!("HTLC {h} funded a pay request but was answered {resp} while that payment was still undecided"), json!({"injected_fault": ctx, "result": result}));
                            }
                        }
                    }
                    // window bookkeeping for C07
                    let t = self.tracks.entry(hash).or_default();
                    let entry = self.win_answers.entry(hash).or_insert_with(|| (t.held.clone(), vec![]));
                    entry.1.push((*h, resp.clone(), rec.t_ms));
                    t.held.retain(|x| x != h);
                    if t.held.is_empty() {
                        t.paying = None;
                    }
                }
                if self.probe_htlcs.contains(h) {
                    self.stats.probe_runs += 1;
                }
            }
            Ev::HtlcUndeserialisable { .. } => {
                self.stats.undeserialisable += 1;
                self.mix(24);
            }
            Ev::HtlcPanic { h } => {
                self.stats.panics += 1;
                self.mix(25);
                self.v("C06", "handler_panicked", format!("handle_htlc for HTLC {h} panicked: {}", crate::LAST_PANIC.with(|l| l.borrow().clone())), json!({"where": "handler"}));
            }
            Ev::Panic { msg } => {
                self.stats.panics += 1;
                let is_todo = msg.contains("not yet implemented");
                if is_todo {
                    self.todo_panics += 1;
                    // the todo!() sits behind a failed wait_payment on the restart path: the lifecycle that
                    // panicked is the one whose read was just failed
                    if let Some((h, ctx)) = self.last_read_fault.pop_front() {
                        self.todo_hashes.insert(h, ctx);
                    }
                }
                self.v("C06", "task_panicked", format!("a plugin task panicked: {msg}"), json!({"where": "task", "todo": is_todo}));
            }
            Ev::RpcArrive { uid, method, params, hash } => {
                self.rpc_arrivals_total += 1;
                self.mix(match method.as_str() {
                    "datastore" => 30,
                    "listdatastore" => 31,
                    "listsendpays" => 32,
                    "waitsendpay" => 33,
                    "pay" => 34,
                    _ => 35,
                });
                let Some(hash) = hash else { return };
                let hash = *hash;
                *self.outstanding.entry(hash).or_default() += 1;
                if method == "datastore" {
                    // first intent write of an attempt = payment initiated (C04 snapshot)
                    let is_state = params["key"].as_array().map(|k| k.last().and_then(|x| x.as_str()) == Some("state")).unwrap_or(false);
                    let is_pending = params["string"].as_str().map(|s| s.contains("Pending")).unwrap_or(false);
                    let is_free = params["string"].as_str().map(|s| s.contains("Free")).unwrap_or(false);
                    if is_state && is_free {
                        let t = self.tracks.entry(hash).or_default();
                        if t.lc.open && t.lc.fetch_state == Some("Pending") && !t.lc.pay_issued && t.lc.recovery_uid.is_none() {
                            t.lc.recovery_uid = Some(*uid);
                        }
                    }
                    if is_state && is_pending {
                        // a poll answered in this very window may not have reached the plugin when it read the height
                        let told = self.told_before_window;
                        let t = self.tracks.entry(hash).or_default();
                        let min_expiry = t.held.iter().map(|h| scn.htlcs[*h].cltv_expiry).min();
                        if let Some(me) = min_expiry {
                            t.lc.c04_snapshot = Some((me, told, t.held.len()));
                        }
                    }
                }
                if method == "pay" {
                    self.stats.pays += 1;
                    let bolt11 = params["bolt11"].as_str().unwrap_or("").to_string();
                    let held: Vec<usize> = self.tracks.get(&hash).map(|t| t.held.clone()).unwrap_or_default();
                    if held.len() >= 2 {
                        self.stats.multi_htlc_pay += 1;
                    }
                    if self.life > 0 {
                        self.stats.pay_after_restart += 1;
                    }
                    // ---- C01 clause 2: not on behalf of an HTLC of another hash
                    for (i, inf) in self.info.clone().iter().enumerate() {
                        let is_held = self.deliver_win.contains_key(&i) && self.is_unanswered(i);
                        if is_held && inf.carries.as_deref() == Some(bolt11.as_str()) && inf.hash != hash {
                            self.v(
                                "C01",
                                "pay_on_behalf_of_other_hash",
                                format!("pay issued for invoice hash {} while HTLC {i} carrying that invoice has payment hash {}", hex::encode(&hash[..6]), hex::encode(&inf.hash[..6])),
                                json!({}),
                            );
                        }
                    }
                    // ---- C05: one live attempt; never pay a paid invoice again
                    let others = Self::pay_running_for(s, &hash) - 1;
                    if s.node.live(&hash) || others > 0 {
                        let ctx = self.fault_ctx.get(&hash).cloned().unwrap_or_else(|| "none".into());
                        self.v(
                            "C05",
                            "pay_while_earlier_attempt_live",
                            format!("pay issued for hash {} while parts {:?} exist / {} other pay running", hex::encode(&hash[..4]), s.node.parts.iter().filter(|p| p.hash == hash).map(|p| (p.uid, p.status)).collect::<Vec<_>>(), others),
                            json!({"injected_fault": ctx, "complete": s.node.has_complete(&hash)}),
                        );
                    }
                    // ---- C08: in-flight marker durable before pay
                    let st = s.node.stored_state(&hash).0;
                    if st != "Pending" {
                        self.v("C08", "pay_without_durable_pending", format!("pay issued for hash {} while the stored state is {st}", hex::encode(&hash[..4])), json!({"stored": st}));
                    }
                    // ---- C03: covered, right amount, within budget
                    let tr: Vec<(usize, (String, u64, usize))> = held.iter().filter_map(|h| self.info[*h].tramp.clone().map(|t| (*h, t))).collect();
                    let sum: u128 = tr.iter().map(|(h, _)| scn.htlcs[*h].amount_msat as u128).sum();
                    let carrier = tr.iter().find(|(_, t)| t.0 == bolt11);
                    match carrier {
                        None => {
                            let d = format!("pay bolt11 is not (byte for byte) the invoice of any held HTLC of hash {} (held {:?}): {}...", hex::encode(&hash[..4]), held, &bolt11[..bolt11.len().min(60)]);
                            self.v("C03", "pay_invoice_not_carried_by_held_htlcs", d.clone(), json!({}));
                            self.v("C10", "pay_invoice_not_carried_by_held_htlcs", d, json!({}));
                        }
                        Some((_, (_, amount, pay))) => {
                            let a = *amount;
                            let need = a as u128 + cfg.base as u128 + (a as u128 * cfg.ppm as u128) / 1_000_000;
                            if sum < need {
                                self.v("C03", "pay_not_covered", format!("pay issued with held total {sum} < amount {a} + fee = {need} (held {:?})", held), json!({}));
                                self.v("C11", "pay_started_for_incomplete_set", format!("pay issued although the held HTLCs {:?} total {sum} < required {need}", held), json!({}));
                            }
                            let maxfee = params.get("maxfee").and_then(parse_msat);
                            match maxfee {
                                Some(mf) if (mf as u128) <= sum.saturating_sub(a as u128) => {}
                                other => self.v("C03", "fee_budget_exceeds_held_surplus", format!("maxfee {other:?} > held total {sum} - amount {a}"), json!({})),
                            }
                            let req_amount = params.get("amount_msat").and_then(parse_msat);
                            let spec = &scn.payments[*pay];
                            let want = if invoice_has_amount(&bolt11) { None } else { Some(a) };
                            if req_amount != want {
                                let d = format!("pay amount_msat {req_amount:?}, expected {want:?} (invoice amount {:?}, declared {})", spec.invoice_amount, spec.tlv_amount);
                                self.v("C03", "wrong_pay_amount", d.clone(), json!({}));
                                self.v("C10", "wrong_pay_amount", d, json!({}));
                            }
                        }
                    }
                    // ---- C04: maxdelay bound
                    let t = self.tracks.entry(hash).or_default();
                    t.attempts_seen += 1;
                    t.lc.pay_issued = true;
                    t.paying = Some((*uid, held.clone()));
                    let snapshot = t.lc.c04_snapshot;
                    let must_reject = t.lc.must_reject;
                    let reject_expiry = t.lc.reject_expiry;
                    let maxdelay = params.get("maxdelay").and_then(|m| m.as_u64());
                    if let Some((min_expiry, told, n_held)) = snapshot {
                        let room = min_expiry.saturating_sub(told).saturating_sub(cfg.cltv_delta as u32);
                        let bound = (room.min(u16::MAX as u32) as u64).min(cfg.policy_delta as u64);
                        let distinct_expiries = held.iter().map(|h| scn.htlcs[*h].cltv_expiry).collect::<BTreeSet<_>>().len();
                        if distinct_expiries > 1 || self.stats.height_changes > 1 || room == 0 || bound == cfg.policy_delta as u64 {
                            self.stats.c04_nontrivial += 1;
                        }
                        match maxdelay {
                            Some(md) if md <= bound => {}
                            other => self.v(
                                "C04",
                                "maxdelay_exceeds_safe_bound",
                                format!("maxdelay {other:?} > min(policy {}, lowest expiry {min_expiry} - height {told} - safety {}) = {bound} ({n_held} HTLCs held at initiation)", cfg.policy_delta, cfg.cltv_delta),
                                json!({}),
                            ),
                        }
                    } else {
                        self.v("C04", "pay_without_observed_initiation", format!("pay for hash {} without a preceding intent write", hex::encode(&hash[..4])), json!({}));
                    }
                    // ---- C07 / C04 clause 2: a rejected set must not be paid
                    if must_reject {
                        let d = format!("pay issued for hash {} although a rejecting HTLC arrived before the set {:?} was fully funded", hex::encode(&hash[..4]), held);
                        self.v("C07", "paid_after_rejection", d.clone(), json!({}));
                        if reject_expiry {
                            self.v("C04", "paid_despite_low_relative_expiry", d, json!({}));
                        }
                    }
                }
            }
            Ev::RpcAnswer { uid, method, hash, applied, ok, reply, fault } => {
                if let Some(h) = hash {
                    *self.outstanding.entry(*h).or_default() -= 1;
                }
                self.mix(40 + (*ok as u64) * 2 + (*applied as u64));
                if *fault {
                    if method == "datastore" {
                        self.stats.write_faults_hit += 1;
                    } else {
                        self.stats.read_faults_hit += 1;
                        if let Some(h) = hash {
                            self.read_fault_hashes.insert(*h);
                        }
                    }
                    if let Some(h) = hash {
                        let code = reply["error"]["code"].as_i64().unwrap_or(0);
                        let _ = code;
                        let after_pay = self.tracks.get(h).map(|t| t.lc.pay_issued).unwrap_or(false);
                        let d = if method == "datastore" {
                            format!("write_fault:{}", if *applied { "applied_but_error" } else { "rejected" })
                        } else if method == "listdatastore" {
                            format!("read_fault:{method}")
                        } else {
                            // call site: inside wait_payment after this lifecycle's pay, or on the restart path before any pay
                            format!("read_fault:{method}:{}", if after_pay { "after_pay" } else { "restart_path" })
                        };
                        if d.starts_with("read_fault:") && d.ends_with(":restart_path") && !self.last_read_fault.iter().any(|x| x.0 == *h) {
                            self.last_read_fault.push_back((*h, d.clone()));
                        }
                        self.fault_ctx.insert(*h, d);
                        if let Some(t) = self.tracks.get_mut(h) {
                            t.lc.tainted = true;
                            t.faulted_this_life = true;
                        }
                    }
                }
                if !*ok && !*fault && method == "datastore" {
                    if let Some(h) = hash {
                        let code = reply["error"]["code"].as_i64().unwrap_or(0);
                        self.fault_ctx.insert(*h, format!("genuine_error:datastore:{code}"));
                        if let Some(t) = self.tracks.get_mut(h) {
                            t.lc.genuine_error = Some(code);
                        }
                    }
                }
                if method == "listsendpays" {
                    self.first_list_answered = true;
                }
                if method == "pay" {
                    let live_after = hash.map(|h| s.node.live(&h)).unwrap_or(false);
                    if live_after {
                        self.stats.pay_left_live += 1;
                    }
                    self.last_pay_outcome = if *ok {
                        format!("result status={} warning={}", reply["result"]["status"].as_str().unwrap_or("?"), reply["result"].get("warning_partial_completion").is_some())
                    } else {
                        format!("error code={}", reply["error"]["code"])
                    };
                    if *ok && reply["result"].get("payment_hash").is_none() {
                        self.last_pay_outcome = "unparsable result".into();
                    }
                }
                let Some(hash) = hash else { return };
                let hash = *hash;
                if method == "listdatastore" {
                    let state = s.node.stored_state(&hash).0;
                    let t = self.tracks.entry(hash).or_default();
                    if t.lc.open && t.lc.fetch_answered_ms.is_none() && *ok {
                        t.lc.fetch_answered_ms = Some(rec.t_ms);
                        t.lc.fetch_state = Some(state);
                    }
                }
                if method == "datastore" && *applied {
                    let st = s.node.stored_state(&hash);
                    let grid = self.grid_s;
                    let any_part = s.node.parts.iter().any(|p| p.hash == hash);
                    if any_part {
                        self.stats.state_write_after_part += 1;
                    }
                    let t = self.tracks.entry(hash).or_default();
                    let key_is_state = reply["result"]["key"].as_array().map(|k| k.last().and_then(|x| x.as_str()) == Some("state")).unwrap_or(true);
                    if key_is_state || *fault {
                        match st.0 {
                            "Pending" => t.pending_written_grid = Some(grid),
                            "Free" => {
                                if t.lc.open && t.lc.recovery_uid == Some(*uid) {
                                    t.lc.recovery_done_ms = Some(rec.t_ms);
                                }
                            }
                            _ => {}
                        }
                    }
                    // ---- C08: free marker only when nothing is pending or complete
                    if st.0 == "Free" && Self::live(s, &hash) {
                        self.v("C08", "free_written_while_live", format!("Free written for hash {} while parts {:?} are pending/complete", hex::encode(&hash[..4]), s.node.parts.iter().filter(|p| p.hash == hash).map(|p| (p.uid, p.status)).collect::<Vec<_>>()), json!({"injected_fault": self.fault_ctx.get(&hash).cloned().unwrap_or_else(|| "none".into())}));
                    }
                    if let ("Succeeded", Some(v)) = &st {
                        let pre: Vec<u8> = v["Succeeded"]["preimage"].as_array().map(|a| a.iter().filter_map(|x| x.as_u64()).map(|x| x as u8).collect()).unwrap_or_default();
                        if pre.len() != 32 || sha256::Hash::hash(&pre).to_byte_array() != hash {
                            self.v("C08", "succeeded_record_with_wrong_preimage", format!("Succeeded record of hash {} holds preimage {}", hex::encode(&hash[..4]), hex::encode(&pre)), json!({}));
                        }
                    }
                }
                self.check_c08_invariant(s);
            }
            Ev::PartNew { hash, .. } => {
                self.stats.parts += 1;
                self.mix(50);
                let _ = hash;
                self.check_c08_invariant(s);
            }
            Ev::PartResolved { status, .. } => {
                if self.first_list_answered {
                    self.changed_after_list = true;
                }
                if *status == PartStatus::Complete {
                    self.stats.parts_completed += 1;
                }
                self.mix(51 + (*status == PartStatus::Complete) as u64);
                self.check_c08_invariant(s);
            }
            Ev::Notify { payee, hash, invoice } => {
                // ---- C10: payee is the key the signature verifies against
                let want = pubkey(&dest_secret()).to_string();
                if *payee != want {
                    self.v("C10", "wrong_payee_in_notification", format!("failure notification for hash {} names payee {payee}, the invoice {} verifies against {want}", hex::encode(&hash[..4]), &invoice[..20.min(invoice.len())]), json!({}));
                }
            }
            Ev::CallResult { call, result } => {
                self.stats.calls_done += 1;
                self.mix(70);
                let d = scn.direct.get(*call).cloned();
                let (pay, is_wait) = match d {
                    Some(Direct::WaitPayment(p)) => (p as usize, true),
                    Some(Direct::Pay(p)) => (p as usize, false),
                    None => return,
                };
                let spec = &scn.payments[pay % scn.payments.len()];
                let hash = spec.hash();
                let pre = hex::encode(spec.preimage_bytes());
                let parts: Vec<(usize, PartStatus)> = s.node.parts.iter().filter(|p| p.hash == hash).map(|p| (p.uid, p.status)).collect();
                let live = s.node.live(&hash) || Self::pay_running_for(s, &hash) > 0;
                let complete = s.node.has_complete(&hash);
                let prop = if is_wait { "C15" } else { "C16" };
                let name = if is_wait { "wait_payment" } else { "pay" };
                if result.get("panic").is_some() {
                    self.v(prop, "call_panicked", format!("{name} panicked; parts {parts:?}"), json!({}));
                } else if let Some(p) = result.get("ok_some").or(result.get("ok")).and_then(|p| p.as_str()) {
                    if !complete || p != pre {
                        self.v(prop, "success_without_completed_part", format!("{name} returned preimage {p} but parts are {parts:?} (true preimage {pre})"), json!({}));
                    }
                } else if result.get("ok_none").is_some() {
                    if live {
                        self.v(prop, "none_while_pending_or_complete", format!("wait_payment returned 'no payment' while parts are {parts:?}"), json!({}));
                    }
                } else if let Some(e) = result.get("err").and_then(|e| e.as_str()) {
                    if is_wait {
                        // an RPC-level error (transport, -1, 200, failed list query) may end the wait with Err; part-level codes may not
                        if self.stats.read_faults_hit == 0 {
                            self.v(prop, "wait_aborted_with_error", format!("wait_payment returned Err({e}) although no RPC-level error was injected; parts {parts:?}"), json!({"live": live}));
                        }
                    } else if live {
                        self.v(
                            prop,
                            "failure_while_pending_or_complete",
                            format!("pay returned Err({e}) while parts are {parts:?}; pay outcome was {}", self.last_pay_outcome),
                            json!({"pay_outcome": self.last_pay_outcome}),
                        );
                    }
                }
                if self.changed_after_list {
                    self.stats.part_changed_during_wait += 1;
                }
            }
            Ev::HeightRead { h } => {
                self.mix(80);
                if *h != self.told_height {
                    self.v(
                        "C20",
                        "height_not_max_of_told",
                        format!("current_height() = {h} but the maximum height told in this lifetime is {}", self.told_height),
                        json!({"lower": *h < self.told_height}),
                    );
                }
                if *h < self.height_reads_max {
                    self.v("C20", "height_decreased", format!("current_height() went from {} to {h}", self.height_reads_max), json!({}));
                }
                self.height_reads_max = self.height_reads_max.max(*h);
            }
            Ev::ProbeStart { h } => {
                self.probe_htlcs.insert(*h);
                let any_pending = self.tracks.keys().any(|k| s.node.stored_state(k).0 == "Pending");
                if any_pending {
                    self.stats.probe_left_pending += 1;
                }
            }
            Ev::DrainStart => self.mix(60),
            Ev::End => {
                self.finalize_window(s, scn);
            }
        }
    }

    fn is_unanswered(&self, h: usize) -> bool {
        self.tracks.values().any(|t| t.held.contains(&h))
    }

    /// C08 core invariant on every prefix (= possible crash image).
    fn check_c08_invariant(&mut self, s: &Shared) {
        let hashes: BTreeSet<[u8; 32]> = s.node.parts.iter().filter(|p| p.status != PartStatus::Failed).map(|p| p.hash).collect();
        for h in hashes {
            let st = s.node.stored_state(&h).0;
            if st != "Pending" && st != "Succeeded" {
                let ctx = self.fault_ctx.get(&h).cloned().unwrap_or_else(|| "none".into());
                // report once per hash and state
                let kind = "record_understates_payment";
                if !self.violations.iter().any(|v| v.prop == "C08" && v.kind == kind && v.detail.contains(&hex::encode(&h[..4]))) {
                    self.v(
                        "C08",
                        kind,
                        format!("hash {}: parts {:?} pending/complete while the durable record is {st}", hex::encode(&h[..4]), s.node.parts.iter().filter(|p| p.hash == h).map(|p| (p.uid, p.status)).collect::<Vec<_>>()),
                        json!({"stored": st, "injected_fault": ctx}),
                    );
                }
            }
        }
    }

    pub fn probe_result(&mut self, idx: usize, round: usize, resolved: bool, fixpoint: bool, resp: Option<Value>) {
        if !resolved && fixpoint {
            self.v(
                "C09",
                "hash_permanently_unpayable",
                format!("probe {idx} ({}): fully funded set with cooperative recipient answered {resp:?}; the stored image did not change, so every retry fails the same way", if round == 100 { "same process, no restart".to_string() } else { format!("fresh lifetime, round {round}") }),
                json!({"answer": resp}),
            );
        }
    }

    pub fn at_end(&mut self, s: &Shared, scn: &Scenario, _classes: &[Class], delivered: &[bool], answered: &[Option<Value>]) {
        // ---- C06: every delivered call answered after the fair drain
        for h in 0..delivered.len() {
            if delivered[h] && answered[h].is_none() {
                self.stats.hung += 1;
                let hash = self.info[h].hash;
                // root cause first: if this hash's lifecycle died in the known todo!(), the fault that led there
                let ctx = self.todo_hashes.get(&hash).cloned().unwrap_or_else(|| self.fault_ctx.get(&hash).cloned().unwrap_or_else(|| "none".into()));
                let panicked = self.todo_hashes.contains_key(&hash) && self.stats.panics == self.todo_panics;
                self.v(
                    "C06",
                    "htlc_never_answered",
                    format!("HTLC {h} ({:?}) still unanswered after the fair drain (pending RPCs: {:?}, panics: {})", scn.htlcs[h].meta, s.pending.iter().map(|r| r.method.clone()).collect::<Vec<_>>(), self.stats.panics),
                    json!({"injected_fault": ctx, "after_todo_panic_only": panicked}),
                );
            }
        }
        // ---- C11: an incomplete set (no rejection, no attempt live, no fault) must not stay held for ever
        let cfg = scn.cfg_at(self.life).clone();
        for (hash, t) in self.tracks.clone().iter() {
            let lc = &t.lc;
            if !lc.open || t.held.is_empty() || lc.any_rejecting || lc.tainted || lc.pay_issued || lc.genuine_error.is_some() || self.read_fault_hashes.contains(hash) {
                continue;
            }
            let Some(first) = lc.first else { continue };
            let Some((_, amount, _)) = self.info[first].tramp.clone() else { continue };
            let funded = fee_sufficient_ref(cfg.base, cfg.ppm, lc.sum.min(u64::MAX as u128) as u64, amount);
            if !funded && lc.fetch_answered_ms.is_some() && !Self::live(s, hash) {
                self.v("C11", "incomplete_set_never_failed", format!("incomplete set {:?} (held {:?}) was never failed back although the drain waited several MPP timeouts", lc.set, t.held), json!({}));
            }
        }
        // ---- C05: at most one completed outgoing payment per invoice
        let mut groups: BTreeMap<[u8; 32], BTreeSet<u64>> = BTreeMap::new();
        for p in s.node.parts.iter().filter(|p| p.status == PartStatus::Complete) {
            groups.entry(p.hash).or_default().insert(p.groupid);
        }
        for (h, g) in groups {
            if g.len() > 1 {
                self.v("C05", "invoice_paid_twice", format!("hash {} has completed parts in {} different payment groups", hex::encode(&h[..4]), g.len()), json!({}));
            }
        }
        if self.tracks.values().filter(|t| t.attempts_seen > 0).count() > 0 && self.stats.lifetimes > 1 {
            self.stats.overlap_lifecycles += 0;
        }
    }
}

fn invoice_has_amount(bolt11: &str) -> bool {
    bolt11.parse::<lightning_invoice::Bolt11Invoice>().map(|i| i.amount_milli_satoshis().is_some()).unwrap_or(false)
}
