//! WORLD engine: the real HtlcManager + ClnDatastore + PayPaymentProvider<Rpc> +
//! BlockWatcher + Rpc against the simulated node over a real unix socket, in a
//! paused, seeded current-thread runtime. The driver owns every source of
//! nondeterminism; a crash drops the whole runtime.
use crate::block_watcher::{BlockProvider, BlockWatcher};
use crate::email::{NotificationService, NotifyPaymentFailedRequest};
use crate::htlc_manager::{HtlcManager, HtlcManagerParams};
use crate::messages::{BlockAdded, HtlcAcceptedRequest, TrampolineRoutingPolicy};
use crate::monitors::Monitors;
use crate::node::*;
use crate::payment_provider::{PayPaymentProvider, PaymentProvider, PaymentRequest};
use crate::rpc::Rpc;
use crate::scen::*;
use crate::store::ClnDatastore;
use secp256k1::hashes::Hash as _;
use serde_json::{json, Value};
use std::sync::{Arc, Mutex};
use std::time::Duration;
use tokio::io::{AsyncReadExt, AsyncWriteExt};
use tokio::sync::oneshot;

pub type Mgr = HtlcManager<BlockWatcher, CaptureNotif, PayPaymentProvider<Rpc>, ClnDatastore>;

#[derive(Clone, Debug)]
pub enum Ev {
    LifetimeStart,
    Deliver { h: usize, replay: bool },
    /// the plugin produced a response for HTLC h (`lost` = the node crashed before acting on it)
    HtlcAnswer { h: usize, resp: Value },
    /// the request JSON could not be deserialised by the mirror of on_htlc_accepted
    HtlcUndeserialisable { h: usize, err: String },
    HtlcPanic { h: usize },
    RpcArrive { uid: u64, method: String, params: Value, hash: Option<[u8; 32]> },
    /// driver answered RPC uid; `applied` = an effect took place; `ok` = result (not error) sent
    RpcAnswer { uid: u64, method: String, hash: Option<[u8; 32]>, applied: bool, ok: bool, reply: Value, fault: bool },
    PartNew { part: usize, hash: [u8; 32], cmd: Option<u64> },
    PartResolved { part: usize, hash: [u8; 32], status: PartStatus },
    Tick { secs: u64 },
    /// a height became known to the plugin (getinfo answered / notification delivered)
    HeightTold { h: u32, via: &'static str },
    NodeHeight { h: u32 },
    Crash { down_s: u64, lose_last: bool },
    Notify { payee: String, hash: [u8; 32], invoice: String },
    Panic { msg: String },
    /// the wall clock was stepped back by this much during the downtime
    ClockBack { secs: u64 },
    /// result of a direct provider call (unit worlds C15/C16)
    CallResult { call: usize, result: Value },
    /// height reading of the block watcher (C20)
    HeightRead { h: u32 },
    DrainStart,
    ProbeStart { h: usize },
    End,
}

#[derive(Clone, Debug)]
pub struct Rec {
    pub seq: usize,
    pub t_ms: u64,
    pub win: u32,
    pub life: u32,
    pub ev: Ev,
}

pub struct PendingRpc {
    pub uid: u64,
    pub method: String,
    pub params: Value,
    pub hash: Option<[u8; 32]>,
    pub tx: Option<oneshot::Sender<Value>>,
    /// pay commands: group id once they created a part
    pub group: Option<u64>,
    pub arrived_ms: u64,
}

pub struct Shared {
    pub node: NodeState,
    pub log: Vec<Rec>,
    pub pending: Vec<PendingRpc>,
    pub activity: u64,
    pub next_uid: u64,
    pub win: u32,
    pub life: u32,
    pub base_ms: u64,
    pub t0: Option<tokio::time::Instant>,
    /// number of getinfo requests still answered automatically (u32::MAX = all)
    pub auto_getinfo: u32,
    pub local_id: String,
    /// E2E only: automatic getinfo replies are delayed by this many (real) milliseconds
    pub getinfo_delay_ms: u64,
    /// E2E only: the autopilot leaves `pay` requests unanswered while this is set
    pub hold_pays: bool,
    /// E2E only: waitsendpay stays unanswered while its part is pending (instead of error 200)
    pub hold_waitsendpay: bool,
    /// E2E only: listdatastore is answered with an RPC error carrying this message
    pub err_text: Option<String>,
}

impl Shared {
    pub fn now_ms(&self) -> u64 {
        self.base_ms + self.t0.map(|t| t.elapsed().as_millis() as u64).unwrap_or(0)
    }
    pub fn push(&mut self, ev: Ev) {
        let rec = Rec { seq: self.log.len(), t_ms: self.now_ms(), win: self.win, life: self.life, ev };
        self.log.push(rec);
        self.activity += 1;
    }
}

pub struct CaptureNotif {
    pub shared: Arc<Mutex<Shared>>,
    /// the mail provider never answers (it is not the node's RPC: nothing else may wait for it)
    pub stall: bool,
}

#[async_trait::async_trait]
impl NotificationService for CaptureNotif {
    async fn notify_payment_failed(&self, req: NotifyPaymentFailedRequest) {
        {
            let mut s = self.shared.lock().unwrap();
            s.push(Ev::Notify {
                payee: req.destination.to_string(),
                hash: *<secp256k1::hashes::sha256::Hash as AsRef<[u8; 32]>>::as_ref(&req.payment_hash),
                invoice: req.invoice.clone(),
            });
        }
        if self.stall {
            std::future::pending::<()>().await;
        }
    }
}

pub fn hash_of_request(method: &str, params: &Value) -> Option<[u8; 32]> {
    match method {
        "datastore" | "listdatastore" | "deldatastore" => {
            let k = params.get("key")?.as_array()?;
            let h = hex::decode(k.get(2)?.as_str()?).ok()?;
            h.try_into().ok()
        }
        "listsendpays" | "waitsendpay" => params.get("payment_hash").and_then(parse_hash),
        "pay" => {
            let b = params.get("bolt11")?.as_str()?;
            let inv: lightning_invoice::Bolt11Invoice = b.parse().ok()?;
            Some(*<secp256k1::hashes::sha256::Hash as AsRef<[u8; 32]>>::as_ref(inv.payment_hash()))
        }
        _ => None,
    }
}

async fn serve_conn(mut stream: tokio::net::UnixStream, shared: Arc<Mutex<Shared>>) {
    let mut buf: Vec<u8> = vec![];
    loop {
        // read one frame (terminated by a blank line)
        let frame = loop {
            if let Some(pos) = buf.windows(2).position(|w| w == b"\n\n") {
                let f: Vec<u8> = buf.drain(..pos + 2).collect();
                break f;
            }
            let mut tmp = [0u8; 4096];
            match stream.read(&mut tmp).await {
                Ok(0) | Err(_) => return,
                Ok(n) => buf.extend_from_slice(&tmp[..n]),
            }
        };
        let req: Value = match serde_json::from_slice(&frame) {
            Ok(v) => v,
            Err(_) => return,
        };
        let id = req.get("id").cloned().unwrap_or(Value::Null);
        let method = req.get("method").and_then(|m| m.as_str()).unwrap_or("").to_string();
        let params = req.get("params").cloned().unwrap_or(Value::Null);
        let method_is_getinfo = method == "getinfo";
        let rx = {
            let mut s = shared.lock().unwrap();
            if method == "getinfo" && s.auto_getinfo > 0 {
                if s.auto_getinfo != u32::MAX {
                    s.auto_getinfo -= 1;
                }
                let h = s.node.height;
                let id_hex = s.local_id.clone();
                let reply = s.node.getinfo(&id_hex);
                s.push(Ev::HeightTold { h, via: "getinfo" });
                let (tx, rx) = oneshot::channel();
                let _ = tx.send(reply);
                rx
            } else {
                let uid = s.next_uid;
                s.next_uid += 1;
                let hash = hash_of_request(&method, &params);
                let (tx, rx) = oneshot::channel();
                let now = s.now_ms();
                s.pending.push(PendingRpc { uid, method: method.clone(), params: params.clone(), hash, tx: Some(tx), group: None, arrived_ms: now });
                // monitors see the removal of a record as a write that makes the hash free (absent = free)
                let (ev_method, ev_params) = if method == "deldatastore" {
                    let mut p = params.clone();
                    p["string"] = json!("\"Free\"");
                    p["mode"] = json!("delete");
                    ("datastore".to_string(), p)
                } else {
                    (method, params)
                };
                s.push(Ev::RpcArrive { uid, method: ev_method, params: ev_params, hash });
                rx
            }
        };
        let reply = match rx.await {
            Ok(r) => r,
            Err(_) => return, // connection dropped by the driver (transport failure)
        };
        if method_is_getinfo {
            let d = shared.lock().unwrap().getinfo_delay_ms;
            if d > 0 {
                tokio::time::sleep(Duration::from_millis(d)).await;
            }
        }
        let mut out = json!({"jsonrpc": "2.0", "id": id});
        if let Some(r) = reply.get("result") {
            out["result"] = r.clone();
        } else if let Some(e) = reply.get("error") {
            out["error"] = e.clone();
        } else if let Some(raw) = reply.get("raw") {
            out = raw.clone();
        }
        let mut bytes = serde_json::to_vec(&out).unwrap();
        bytes.extend_from_slice(b"\n\n");
        if stream.write_all(&bytes).await.is_err() {
            return;
        }
        shared.lock().unwrap().activity += 1;
    }
}

pub async fn serve(listener: tokio::net::UnixListener, shared: Arc<Mutex<Shared>>) {
    loop {
        match listener.accept().await {
            Ok((stream, _)) => {
                shared.lock().unwrap().activity += 1;
                tokio::spawn(serve_conn(stream, shared.clone()));
            }
            Err(_) => return,
        }
    }
}

pub struct World {
    pub scn: Scenario,
    pub classes: Vec<Class>,
    pub shared: Arc<Mutex<Shared>>,
    pub mon: Monitors,
    pub seen: usize,
    pub delivered: Vec<bool>,
    /// answered[h] = Some(resp) once the node has received an answer
    pub answered: Vec<Option<Value>>,
    pub step_i: usize,
    pub sock_path: String,
    pub real_start: std::time::Instant,
    pub inconclusive: bool,
    pub truncated: bool,
    direct_started: usize,
    pub effects: u32,
    /// effect counter at the moment a to-be-held RPC was first seen pending
    hold_seen: std::collections::BTreeMap<u64, u32>,
    release_holds: bool,
    /// virtual wall clock on the 5 s grid: ticks + downtimes (settle milliseconds excluded)
    grid_s: u64,
    /// per stored state key: (grid time when Pending was written, seconds already aged)
    pending_meta: std::collections::BTreeMap<Vec<String>, (u64, u64)>,
    crash_pending: Option<(u64, bool)>,
    in_probe: bool,
    /// answers produced in the current lifetime, by window (for lose_last)
    answers_by_win: Vec<(u32, usize)>,
    panics_at_start: u64,
    panics_seen: u64,
    write_idx_base: u32,
}

struct Lifetime {
    mgr: Arc<Mgr>,
    watcher: Arc<BlockWatcher>,
    provider: Arc<PayPaymentProvider<Rpc>>,
    _shutdown: tokio::sync::mpsc::Sender<()>,
}

enum LifeEnd {
    Crash { down_s: u64, lose_last: bool, reverse: bool, clock_back_s: u64 },
    Done,
}

/// crash_pending value standing for "no downtime, wall clock stepped back 50 s" (downtimes are multiples of 5 s)
const CLOCK_BACK_MARK: u64 = 1;

static SOCK_COUNTER: std::sync::atomic::AtomicU64 = std::sync::atomic::AtomicU64::new(0);

impl World {
    pub fn new(scn: Scenario) -> World {
        let classes: Vec<Class> = (0..scn.htlcs.len()).map(|i| scn.classify(i)).collect();
        let mut node = NodeState::default();
        node.height = scn.start_height;
        for p in &scn.payments {
            node.preimages.insert(p.hash(), p.preimage_bytes());
        }
        for pay in &scn.initial_pending {
            // as if an earlier lifetime had recorded an attempt for this payment and then died
            let spec = &scn.payments[*pay as usize % scn.payments.len()];
            let h = hex::encode(spec.hash());
            let now = std::time::SystemTime::now().duration_since(std::time::UNIX_EPOCH).map(|d| d.as_secs()).unwrap_or(0);
            let state = json!({"Pending": {"attempt_id": "1", "attempt_time_seconds": now}}).to_string();
            node.datastore.insert(vec!["trampoline".into(), "payments".into(), h.clone(), "state".into()], (state, 0));
            let info = json!({"amount_msat": spec.deliver_amount(), "bolt11": build_invoice(spec, InvKind::Normal), "completed": false, "success": false}).to_string();
            node.datastore.insert(vec!["trampoline".into(), "payments".into(), h, "attempts".into(), "1".into()], (info, 0));
        }
        for pay in &scn.initial_succeeded {
            // as if an earlier run of the pinned release had paid this invoice: its stored format, byte for byte
            // (`{"Succeeded":{"preimage":[..32 numbers..]}}`, attempt record completed + success)
            let spec = &scn.payments[*pay as usize % scn.payments.len()];
            let h = hex::encode(spec.hash());
            let state = json!({"Succeeded": {"preimage": spec.preimage_bytes().to_vec()}}).to_string();
            node.datastore.insert(vec!["trampoline".into(), "payments".into(), h.clone(), "state".into()], (state, 2));
            let info = json!({"amount_msat": spec.deliver_amount(), "bolt11": build_invoice(spec, InvKind::Normal), "completed": true, "success": true}).to_string();
            node.datastore.insert(vec!["trampoline".into(), "payments".into(), h, "attempts".into(), "1".into()], (info, 1));
            let g = node.new_group();
            let uid = node.add_part(spec.hash(), g, None);
            node.parts[uid].status = PartStatus::Complete;
        }
        for (pay, st) in &scn.initial_parts {
            let hash = scn.payments[*pay as usize % scn.payments.len()].hash();
            let g = node.new_group();
            let uid = node.add_part(hash, g, None);
            match st {
                0 => {}
                1 => node.parts[uid].status = PartStatus::Complete,
                n => {
                    node.parts[uid].status = PartStatus::Failed;
                    node.parts[uid].fail_code = 200 + *n as i32;
                }
            }
        }
        let shared = Arc::new(Mutex::new(Shared {
            node,
            log: vec![],
            pending: vec![],
            activity: 0,
            next_uid: 1,
            win: 0,
            life: 0,
            base_ms: 0,
            t0: None,
            auto_getinfo: u32::MAX,
            local_id: local_pubkey().to_string(),
            getinfo_delay_ms: 0,
            hold_pays: false,
            hold_waitsendpay: false,
            err_text: None,
        }));
        let n = scn.htlcs.len();
        let c = SOCK_COUNTER.fetch_add(1, std::sync::atomic::Ordering::Relaxed);
        let sock_path = format!("{}/vf{}_{}.sock", std::env::temp_dir().display(), std::process::id(), c);
        let panics = crate::PANICS.with(|p| p.get());
        World {
            mon: Monitors::new(&scn, &classes),
            scn,
            classes,
            shared,
            seen: 0,
            delivered: vec![false; n],
            answered: vec![None; n],
            step_i: 0,
            sock_path,
            real_start: std::time::Instant::now(),
            inconclusive: false,
            truncated: false,
            direct_started: 0,
            effects: 0,
            hold_seen: std::collections::BTreeMap::new(),
            release_holds: false,
            grid_s: 0,
            pending_meta: std::collections::BTreeMap::new(),
            crash_pending: None,
            in_probe: false,
            answers_by_win: vec![],
            panics_at_start: panics,
            panics_seen: panics,
            write_idx_base: 0,
        }
    }

    /// Runs the whole scenario (all lifetimes, drain, optional probe).
    pub fn run(&mut self) {
        let mut reverse_redeliver = false;
        let mut first = true;
        loop {
            let seed = self.scn.tokio_seed.wrapping_add(self.shared.lock().unwrap().life as u64);
            let rt = tokio::runtime::Builder::new_current_thread()
                .enable_all()
                .start_paused(true)
                .rng_seed(tokio::runtime::RngSeed::from_bytes(&seed.to_le_bytes()))
                .build()
                .expect("runtime");
            let end = rt.block_on(self.lifetime(first, reverse_redeliver));
            first = false;
            // everything inside the runtime dies here: plugin tasks, connections, running pay commands
            drop(rt);
            let _ = std::fs::remove_file(&self.sock_path);
            match end {
                LifeEnd::Done => break,
                LifeEnd::Crash { down_s, lose_last, reverse, clock_back_s } => {
                    reverse_redeliver = reverse;
                    let mut s = self.shared.lock().unwrap();
                    // pending RPCs die with their connections; running pay commands are killed
                    s.pending.clear();
                    if lose_last {
                        let last_win = s.win;
                        for (w, h) in self.answers_by_win.iter() {
                            if *w + 1 >= last_win {
                                self.answered[*h] = None;
                            }
                        }
                    }
                    self.answers_by_win.clear();
                    // virtual clock: the lifetime's elapsed time was folded into base_ms at its end
                    s.base_ms += down_s * 1000;
                    // The plugin reads the wall clock only to compare it with stored attempt
                    // times. Virtual time that passed since an attempt was recorded (ticks of
                    // earlier lifetimes + downtimes, all on the 5 s grid) is made visible to it
                    // by ageing the stored attempt time accordingly.
                    self.grid_s += down_s;
                    drop(s);
                    self.age_stored_attempts();
                    if clock_back_s > 0 {
                        self.clock_stepped_back(clock_back_s);
                    }
                    let mut s = self.shared.lock().unwrap();
                    s.life += 1;
                    s.push(Ev::Crash { down_s, lose_last });
                    if clock_back_s > 0 {
                        s.push(Ev::ClockBack { secs: clock_back_s });
                    }
                    drop(s);
                    self.observe();
                }
            }
        }
        if self.scn.probe {
            self.run_probes();
        }
        {
            let mut s = self.shared.lock().unwrap();
            s.push(Ev::End);
        }
        self.observe();
        let view_shared = self.shared.clone();
        let s = view_shared.lock().unwrap();
        self.mon.at_end(&s, &self.scn, &self.classes, &self.delivered, &self.answered);
        if self.real_start.elapsed() > Duration::from_millis(2500) {
            self.inconclusive = true;
        }
    }

    /// Every stored `Pending.attempt_time_seconds` is moved back so that (real now - stored) equals the grid
    /// time (ticks + downtimes) that passed since that record was written.
    fn age_stored_attempts(&mut self) {
        let mut s = self.shared.lock().unwrap();
        let keys: Vec<Vec<String>> = s.node.datastore.keys().cloned().collect();
        for k in keys {
            if k.last().map(|x| x == "state").unwrap_or(false) {
                let (st, g) = s.node.datastore[&k].clone();
                if let Ok(mut v) = serde_json::from_str::<Value>(&st) {
                    if let Some(t) = v.get("Pending").and_then(|p| p.get("attempt_time_seconds")).and_then(|t| t.as_u64()) {
                        let (written, aged) = self.pending_meta.get(&k).cloned().unwrap_or((self.grid_s, 0));
                        let total = self.grid_s.saturating_sub(written);
                        let delta = total.saturating_sub(aged);
                        self.pending_meta.insert(k.clone(), (written, total));
                        if delta > 0 {
                            v["Pending"]["attempt_time_seconds"] = json!(t.saturating_sub(delta));
                            s.node.datastore.insert(k, (v.to_string(), g));
                        }
                    }
                }
            }
        }
    }

    /// The wall clock was set back by `secs` while the node was down: every stored attempt time now lies
    /// `secs` further in the future relative to "now" (possibly after now).
    fn clock_stepped_back(&mut self, secs: u64) {
        let mut s = self.shared.lock().unwrap();
        let keys: Vec<Vec<String>> = s.node.datastore.keys().cloned().collect();
        for k in keys {
            if k.last().map(|x| x == "state").unwrap_or(false) {
                let (st, g) = s.node.datastore[&k].clone();
                if let Ok(mut v) = serde_json::from_str::<Value>(&st) {
                    if let Some(t) = v.get("Pending").and_then(|p| p.get("attempt_time_seconds")).and_then(|t| t.as_u64()) {
                        v["Pending"]["attempt_time_seconds"] = json!(t + secs);
                        s.node.datastore.insert(k.clone(), (v.to_string(), g));
                        // the ageing bookkeeping (grid time already applied to this record) stays as it is: from here on
                        // the record keeps ageing by the grid time that passes. (It used to move `written` forward by
                        // `secs`, which saturated when the record was younger than `secs` and then aged it too little:
                        // engine and C11 monitor disagreed - a false alarm of the machinery, found by C11 thorough.)
                    }
                }
            }
        }
    }

    /// feed new log records to the monitors
    pub fn observe(&mut self) {
        let sh = self.shared.clone();
        let s = sh.lock().unwrap();
        while self.seen < s.log.len() {
            let rec = s.log[self.seen].clone();
            self.seen += 1;
            if let Ev::HtlcAnswer { h, resp } = &rec.ev {
                if self.answered[*h].is_none() {
                    self.answered[*h] = Some(resp.clone());
                }
                self.answers_by_win.push((rec.win, *h));
            }
            if let Ev::HtlcUndeserialisable { h, .. } = &rec.ev {
                self.answered[*h] = Some(json!({"undeserialisable": true}));
            }
            self.mon.on_event(&rec, &s, &self.scn, &self.classes);
        }
    }

    async fn settle(&mut self) {
        let mut last = self.shared.lock().unwrap().activity;
        let mut stable = 0;
        let mut iters = 0;
        while stable < 8 && iters < 5000 {
            tokio::time::sleep(Duration::from_millis(1)).await;
            iters += 1;
            let a = self.shared.lock().unwrap().activity;
            if a == last {
                stable += 1;
            } else {
                stable = 0;
                last = a;
            }
        }
        let p = crate::PANICS.with(|p| p.get());
        if p > self.panics_seen {
            // one event per panic, each with its own message
            for i in self.panics_seen..p {
                let msg = crate::PANIC_MSGS.with(|l| l.borrow().get(i as usize).cloned()).unwrap_or_else(|| crate::LAST_PANIC.with(|l| l.borrow().clone()));
                self.shared.lock().unwrap().push(Ev::Panic { msg });
            }
            self.panics_seen = p;
        }
        self.observe();
        if !self.scn.hold.is_empty() {
            let uids: Vec<u64> = self.shared.lock().unwrap().pending.iter().map(|r| r.uid).collect();
            for u in uids {
                if self.scn.hold.iter().any(|(ord, _)| *ord as u64 + 1 == u) {
                    let e = self.effects;
                    self.hold_seen.entry(u).or_insert(e);
                }
            }
        }
        self.shared.lock().unwrap().win += 1;
    }

    /// configuration of the lifetime that starts next (probes always run in a fresh lifetime)
    fn cfg_next(&self) -> Cfg {
        let life = self.shared.lock().unwrap().life;
        self.scn.cfg_at(life + 1).clone()
    }

    async fn start_lifetime(&mut self) -> Lifetime {
        let _ = std::fs::remove_file(&self.sock_path);
        let listener = tokio::net::UnixListener::bind(&self.sock_path).expect("bind");
        {
            let mut s = self.shared.lock().unwrap();
            s.t0 = Some(tokio::time::Instant::now());
            s.auto_getinfo = if self.scn.manual_getinfo { 1 } else { u32::MAX };
            s.push(Ev::LifetimeStart);
        }
        tokio::spawn(serve(listener, self.shared.clone()));
        let rpc = Arc::new(Rpc::new(self.sock_path.clone()));
        let mut watcher = BlockWatcher::new(rpc.clone());
        let (tx, rx) = tokio::sync::mpsc::channel(1);
        let _join = watcher.start(rx).await.expect("block watcher start");
        let watcher = Arc::new(watcher);
        let store = Arc::new(ClnDatastore::new(rpc.clone()));
        let (retry_for, xpay) = self.scn.pay_opts.unwrap_or((60, false));
        let provider = Arc::new(PayPaymentProvider::new(rpc.clone(), Duration::from_secs(retry_for as u64), xpay));
        let life_now = self.shared.lock().unwrap().life;
        let c = self.scn.cfg_at(life_now).clone();
        let mgr = Arc::new(HtlcManager::new(HtlcManagerParams {
            allow_self_route_hints: c.allow_self,
            block_provider: watcher.clone(),
            cltv_delta: c.cltv_delta,
            local_pubkey: local_pubkey(),
            mpp_timeout: Duration::from_secs(c.mpp_timeout_s),
            notification_service: Arc::new(CaptureNotif { shared: self.shared.clone(), stall: self.scn.notif_stall }),
            payment_provider: provider.clone(),
            routing_policy: TrampolineRoutingPolicy { fee_base_msat: c.base, fee_proportional_millionths: c.ppm, cltv_expiry_delta: c.policy_delta },
            store,
        }));
        Lifetime { mgr, watcher, provider, _shutdown: tx }
    }

    fn deliver(&mut self, lt: &Lifetime, h: usize, replay: bool) {
        let req = self.scn.render(h);
        self.delivered[h] = true;
        self.shared.lock().unwrap().push(Ev::Deliver { h, replay });
        let mgr = lt.mgr.clone();
        let sh = self.shared.clone();
        tokio::spawn(async move {
            // mirror of plugin::on_htlc_accepted: from_value -> handle_htlc -> to_value
            let inner = tokio::spawn(async move {
                let req: HtlcAcceptedRequest = match serde_json::from_value(req) {
                    Ok(r) => r,
                    Err(e) => return Err(e.to_string()),
                };
                let resp = mgr.handle_htlc(&req).await;
                Ok(serde_json::to_value(resp).unwrap_or(json!({"unserialisable": true})))
            });
            let out = inner.await;
            let mut s = sh.lock().unwrap();
            match out {
                Ok(Ok(resp)) => s.push(Ev::HtlcAnswer { h, resp }),
                Ok(Err(err)) => s.push(Ev::HtlcUndeserialisable { h, err }),
                Err(_) => s.push(Ev::HtlcPanic { h }),
            }
        });
    }

    fn direct_call(&mut self, lt: &Lifetime, idx: usize) {
        let call = self.scn.direct[idx];
        self.direct_started += 1;
        let provider = lt.provider.clone();
        let sh = self.shared.clone();
        let scn = self.scn.clone();
        tokio::spawn(async move {
            let inner = tokio::spawn(async move {
                match call {
                    Direct::WaitPayment(pay) => {
                        let h = secp256k1::hashes::sha256::Hash::from_byte_array(scn.payments[pay as usize].hash());
                        match provider.wait_payment(h).await {
                            Ok(Some(p)) => json!({"ok_some": hex::encode(p)}),
                            Ok(None) => json!({"ok_none": true}),
                            Err(e) => json!({"err": e.to_string()}),
                        }
                    }
                    Direct::Pay(pay) => {
                        let p = &scn.payments[pay as usize];
                        let req = PaymentRequest {
                            bolt11: build_invoice(p, InvKind::Normal),
                            payment_hash: secp256k1::hashes::sha256::Hash::from_byte_array(p.hash()),
                            amount_msat: if p.invoice_amount.is_none() { Some(p.tlv_amount) } else { None },
                            max_fee_msat: 1000,
                            max_cltv_delta: 100,
                        };
                        match provider.pay(req).await {
                            Ok(p) => json!({"ok": hex::encode(p)}),
                            Err(e) => json!({"err": e.to_string()}),
                        }
                    }
                }
            });
            let out = inner.await;
            let mut s = sh.lock().unwrap();
            match out {
                Ok(result) => s.push(Ev::CallResult { call: idx, result }),
                Err(_) => s.push(Ev::CallResult { call: idx, result: json!({"panic": true}) }),
            }
        });
    }

    /// counts node-side effects (every RPC answer, part creation/resolution,
    /// pay outcome); a scheduled crash point fires when its index is reached
    fn effect_done(&mut self) {
        self.effects += 1;
        if self.in_probe {
            return;
        }
        if let Some((_, down, lose)) = self.scn.crash_at.iter().find(|c| c.0 as u32 == self.effects) {
            // 255 = very long outage; 254 = no downtime, but the wall clock was stepped back 50 s (encoded as 1 s below)
            self.crash_pending = Some((match *down { 255 => 100_000, 254 => CLOCK_BACK_MARK, d => 5 * d as u64 }, *lose));
        }
    }

    fn undelivered(&self) -> Vec<usize> {
        (0..self.scn.htlcs.len()).filter(|h| !self.delivered[*h]).collect()
    }

    /// ordinal of a pending RPC among all non-getinfo arrivals of the scenario (uids start at 1)
    fn is_held(&self, r: &PendingRpc) -> bool {
        if self.release_holds {
            return false;
        }
        self.scn.hold.iter().any(|(ord, m)| r.uid == *ord as u64 + 1 && self.effects < self.hold_seen.get(&r.uid).cloned().unwrap_or(self.effects) + *m as u32)
    }

    fn frozen_hash(&self) -> Option<([u8; 32], u16)> {
        self.scn.freeze.map(|(p, k)| (self.scn.payments[p as usize % self.scn.payments.len()].hash(), k))
    }

    /// C14: is this pending RPC withheld forever?
    fn is_frozen(&self, s: &Shared, r: &PendingRpc) -> bool {
        let Some((h, k)) = self.frozen_hash() else { return false };
        if r.hash != Some(h) {
            return false;
        }
        // ordinal of this RPC among the arrivals for that hash in this lifetime
        let life = s.life;
        let ord = s.log.iter().filter(|x| x.life == life).filter(|x| matches!(&x.ev, Ev::RpcArrive { uid, hash, .. } if *hash == Some(h) && *uid < r.uid)).count();
        ord as u16 >= k
    }

    /// uids of pending RPCs the driver may answer now
    fn answerable(&self) -> Vec<u64> {
        let s = self.shared.lock().unwrap();
        s.pending
            .iter()
            .filter(|r| !self.is_frozen(&s, r))
            .filter(|r| !self.is_held(r))
            .filter(|r| !(self.scn.freeze_polls && r.method == "getinfo"))
            .filter(|r| match r.method.as_str() {
                "pay" => false,
                // held while its part is pending - unless the caller passed `timeout` and that much
                // (virtual) time has passed: then lightningd answers error 200
                "waitsendpay" => s.node.waitsendpay(&r.params).is_some() || Self::waitsendpay_timed_out(&s, r),
                _ => true,
            })
            .map(|r| r.uid)
            .collect()
    }

    fn waitsendpay_timed_out(s: &Shared, r: &PendingRpc) -> bool {
        match r.params.get("timeout").and_then(|t| t.as_u64()) {
            Some(t) => s.now_ms() >= r.arrived_ms + t * 1000,
            None => false,
        }
    }

    fn running_pays(&self) -> Vec<u64> {
        let s = self.shared.lock().unwrap();
        s.pending.iter().filter(|r| r.method == "pay").filter(|r| !self.is_frozen(&s, r)).filter(|r| !self.is_held(r)).map(|r| r.uid).collect()
    }

    fn pending_parts(&self) -> Vec<usize> {
        let s = self.shared.lock().unwrap();
        let fh = self.frozen_hash().map(|x| x.0);
        s.node.parts.iter().filter(|p| p.status == PartStatus::Pending && Some(p.hash) != fh).map(|p| p.uid).collect()
    }

    fn answer_rpc(&mut self, uid: u64) {
        {
            let mut guard = self.shared.lock().unwrap();
            let s = &mut *guard;
            let Some(pos) = s.pending.iter().position(|r| r.uid == uid) else { return };
            let mut r = s.pending.remove(pos);
            let deleting = r.method == "deldatastore";
            if deleting {
                r.method = "datastore".into();
            }
            let store_fails = self.scn.fail_store.map(|p| self.scn.payments[p as usize % self.scn.payments.len()].hash()).map(|h| r.hash == Some(h) && matches!(r.method.as_str(), "datastore" | "listdatastore")).unwrap_or(false);
            let (reply, applied, fault) = match r.method.as_str() {
                _ if store_fails => (rpc_error(-1, "injected: the store RPCs of this hash fail"), false, true),
                "datastore" => {
                    let idx = s.node.writes_seen;
                    s.node.writes_seen += 1;
                    let fault = if self.in_probe { None } else { self.scn.write_faults.iter().find(|(n, _)| *n as u32 == idx).map(|f| f.1) };
                    match fault {
                        Some(FaultKind::Reject) => (rpc_error(-1, "injected: write rejected"), false, true),
                        Some(FaultKind::AppliedButError) => {
                            let (_, applied) = if deleting { s.node.datastore_delete(&r.params) } else { s.node.datastore_write(&r.params) };
                            (rpc_error(-1, "injected: write applied but reported failed"), applied, true)
                        }
                        None => {
                            let (rep, applied) = if deleting { s.node.datastore_delete(&r.params) } else { s.node.datastore_write(&r.params) };
                            (rep, applied, false)
                        }
                    }
                }
                .pending_note(&r.params, self.grid_s, &mut self.pending_meta),
                "listdatastore" | "listsendpays" | "waitsendpay" => {
                    let idx = s.node.reads_seen;
                    s.node.reads_seen += 1;
                    let mut fault = if self.in_probe { None } else { self.scn.read_faults.iter().find(|(n, _)| *n as u32 == idx).map(|f| f.1) };
                    if r.method == "listdatastore" {
                        let di = s.node.ds_reads_seen;
                        s.node.ds_reads_seen += 1;
                        if fault.is_none() && !self.in_probe {
                            fault = self.scn.ds_read_faults.iter().find(|(n, _)| *n as u32 == di).map(|f| f.1);
                        }
                    }
                    match fault {
                        Some(code) => (rpc_error(code, "injected: read failed"), false, true),
                        None => {
                            let rep = match r.method.as_str() {
                                "listdatastore" => s.node.listdatastore(&r.params),
                                "listsendpays" => s.node.listsendpays(&r.params),
                                _ => s.node.waitsendpay(&r.params).unwrap_or_else(|| rpc_error(200, "timed out")),
                            };
                            (rep, false, false)
                        }
                    }
                }
                "getinfo" => {
                    let h = s.node.height;
                    let id = s.local_id.clone();
                    s.push(Ev::HeightTold { h, via: "getinfo" });
                    (s.node.getinfo(&id), false, false)
                }
                _ => (rpc_error(-32601, "unknown method"), false, false),
            };
            let ok = reply.get("result").is_some();
            if let Some(tx) = r.tx.take() {
                let _ = tx.send(reply.clone());
            }
            s.push(Ev::RpcAnswer { uid, method: r.method.clone(), hash: r.hash, applied, ok, reply, fault });
        }
        self.observe();
        self.effect_done();
    }

    /// getinfo answered with an error (C20: failed poll)
    fn fail_rpc(&mut self, uid: u64, code: i32) {
        {
            let mut guard = self.shared.lock().unwrap();
            let s = &mut *guard;
            let Some(pos) = s.pending.iter().position(|r| r.uid == uid) else { return };
            let mut r = s.pending.remove(pos);
            let reply = rpc_error(code, "injected failure");
            if let Some(tx) = r.tx.take() {
                let _ = tx.send(reply.clone());
            }
            s.push(Ev::RpcAnswer { uid, method: r.method.clone(), hash: r.hash, applied: false, ok: false, reply, fault: true });
        }
        self.observe();
    }

    fn pay_part(&mut self, uid: u64) {
        {
            let mut guard = self.shared.lock().unwrap();
            let s = &mut *guard;
            let Some(pos) = s.pending.iter().position(|r| r.uid == uid) else { return };
            let Some(hash) = s.pending[pos].hash else { return };
            if s.node.has_complete(&hash) {
                return; // a paid hash is not attempted again by lightningd's pay
            }
            let group = match s.pending[pos].group {
                Some(g) => g,
                None => {
                    let g = s.node.new_group();
                    s.pending[pos].group = Some(g);
                    g
                }
            };
            let part = s.node.add_part(hash, group, Some(uid));
            s.push(Ev::PartNew { part, hash, cmd: Some(uid) });
        }
        self.observe();
        self.effect_done();
    }

    fn resolve_part(&mut self, part: usize, outcome: PartOutcome) {
        {
            let mut guard = self.shared.lock().unwrap();
            let s = &mut *guard;
            let p = &mut s.node.parts[part];
            if p.status != PartStatus::Pending {
                return;
            }
            match outcome {
                PartOutcome::Complete => p.status = PartStatus::Complete,
                PartOutcome::Fail(c) => {
                    p.status = PartStatus::Failed;
                    p.fail_code = c;
                }
            }
            let (hash, status) = (p.hash, p.status);
            s.push(Ev::PartResolved { part, hash, status });
        }
        self.observe();
        self.effect_done();
    }

    /// Finishes a pay command with `want` if consistent with its parts, else
    /// with the nearest consistent outcome.
    fn pay_finish(&mut self, uid: u64, want: PayOutcome) {
        {
            let mut guard = self.shared.lock().unwrap();
            let s = &mut *guard;
            let Some(pos) = s.pending.iter().position(|r| r.uid == uid) else { return };
            let hash = match s.pending[pos].hash {
                Some(h) => h,
                None => {
                    let mut r = s.pending.remove(pos);
                    let reply = rpc_error(-32602, "Invalid bolt11");
                    if let Some(tx) = r.tx.take() {
                        let _ = tx.send(reply.clone());
                    }
                    s.push(Ev::RpcAnswer { uid, method: "pay".into(), hash: None, applied: false, ok: false, reply, fault: false });
                    return;
                }
            };
            let complete = s.node.has_complete(&hash);
            let pending = s.node.has_pending(&hash);
            let c16 = self.scn.c16_profile;
            let outcome = match want {
                PayOutcome::Complete if complete => want,
                PayOutcome::Complete => PayOutcome::Error(210),
                PayOutcome::Pending { .. } if pending => want,
                PayOutcome::Pending { .. } => PayOutcome::Error(210),
                PayOutcome::Failed { .. } if c16 || (!pending && !complete) => want,
                PayOutcome::Failed { .. } => PayOutcome::Error(210),
                // lightningd's pay reports success once a part completed and nothing is pending
                PayOutcome::Error(_) | PayOutcome::Garbled if complete && !pending && !c16 => PayOutcome::Complete,
                o => o,
            };
            let pre = hex::encode(s.node.preimages.get(&hash).copied().unwrap_or([0; 32]));
            let nparts = s.node.parts.iter().filter(|p| p.cmd == Some(uid)).count();
            let base = |status: &str, preimage: Option<String>, warn: bool| {
                let mut v = json!({
                    "status": status,
                    "amount_msat": 1000u64, "amount_sent_msat": 1001u64, "created_at": 1700000000.5f64,
                    "parts": nparts, "payment_hash": hex::encode(hash),
                    "destination": pubkey(&dest_secret()).to_string(),
                });
                if let Some(p) = preimage {
                    v["payment_preimage"] = json!(p);
                }
                if warn {
                    v["warning_partial_completion"] = json!("Some parts of the payment are not yet completed, but we have the confirmation from the recipient");
                }
                json!({"result": v})
            };
            let other_live = s.node.parts.iter().any(|p| p.hash == hash && p.status == PartStatus::Pending);
            let reply = match outcome {
                PayOutcome::Complete => base("complete", Some(pre), other_live),
                PayOutcome::Error(code) => rpc_error(code, "pay failed (simulated)"),
                PayOutcome::Garbled => json!({"result": {"status": "complete"}}),
                PayOutcome::Pending { with_preimage } => base("pending", if with_preimage { Some("00".repeat(32)) } else { None }, false),
                PayOutcome::Failed { warning } => base("failed", Some("00".repeat(32)), warning),
            };
            let mut r = s.pending.remove(pos);
            let ok = reply.get("result").is_some();
            if let Some(tx) = r.tx.take() {
                let _ = tx.send(reply.clone());
            }
            s.push(Ev::RpcAnswer { uid, method: "pay".into(), hash: Some(hash), applied: true, ok, reply, fault: false });
        }
        self.observe();
        self.effect_done();
    }

    async fn tick(&mut self, secs: u64) {
        self.shared.lock().unwrap().push(Ev::Tick { secs });
        // Sliced: with a paused clock every socket hop of an RPC started by a
        // timer costs one park = one jump to the next timer; 200 ms slices keep
        // that smear below a second (one long sleep would smear it over the whole tick).
        for _ in 0..secs * 5 {
            tokio::time::sleep(Duration::from_millis(200)).await;
        }
        self.grid_s += secs;
        // the wall clock moves with virtual time: stored attempt times grow older by the tick as well
        // (the plugin reads the real clock, which does not move, so the stored value is moved instead)
        self.age_stored_attempts();
    }

    fn block(&mut self, lt: &Lifetime, h: u32) {
        {
            let mut s = self.shared.lock().unwrap();
            if h > s.node.height {
                s.node.height = h;
                s.push(Ev::NodeHeight { h });
            }
            s.push(Ev::HeightTold { h, via: "block_added" });
        }
        let w = lt.watcher.clone();
        // mirror of plugin::on_block_added (spawned by the plugin driver)
        tokio::spawn(async move {
            w.new_block(&BlockAdded { height: h }).await;
        });
        self.observe();
    }

    async fn flush(&mut self) {
        for _ in 0..60 {
            self.settle().await;
            let a = self.answerable();
            if a.is_empty() {
                break;
            }
            for uid in a {
                self.answer_rpc(uid);
                if self.crash_pending.is_some() {
                    return;
                }
            }
        }
    }

    async fn lifetime(&mut self, first: bool, reverse: bool) -> LifeEnd {
        let lt = self.start_lifetime().await;
        if !first {
            // the node replays every HTLC it has not received an answer for
            let mut re: Vec<usize> = (0..self.scn.htlcs.len()).filter(|h| self.delivered[*h] && self.answered[*h].is_none()).collect();
            if reverse {
                re.reverse();
            }
            for h in re {
                self.deliver(&lt, h, true);
            }
        } else {
            for i in 0..self.scn.direct.len() {
                self.direct_call(&lt, i);
            }
        }
        let end = self.drive(&lt).await;
        // fold this lifetime's elapsed virtual time into the base
        {
            let mut s = self.shared.lock().unwrap();
            let el = s.t0.map(|t| t.elapsed().as_millis() as u64).unwrap_or(0);
            s.base_ms += el;
            s.t0 = None;
        }
        end
    }

    async fn drive(&mut self, lt: &Lifetime) -> LifeEnd {
        // scheduled part
        while self.step_i < self.scn.steps.len() {
            self.settle().await;
            if self.scn.manual_getinfo {
                let h = lt.watcher.current_height().await;
                self.shared.lock().unwrap().push(Ev::HeightRead { h });
                self.observe();
            }
            if self.drift_exceeded() {
                self.truncated = true;
                self.step_i = self.scn.steps.len();
                break;
            }
            let step = self.scn.steps[self.step_i].clone();
            self.step_i += 1;
            match step {
                Step::Deliver(i) => {
                    let u = self.undelivered();
                    if !u.is_empty() {
                        let h = u[crate::gen::pick(i, u.len())];
                        self.deliver(lt, h, false);
                    }
                }
                Step::Answer(i) => {
                    let a = self.answerable();
                    if !a.is_empty() {
                        self.answer_rpc(a[crate::gen::pick(i, a.len())]);
                    }
                }
                Step::Flush => self.flush().await,
                Step::FailWait(i, code) => {
                    let w: Vec<u64> = self.shared.lock().unwrap().pending.iter().filter(|r| r.method == "waitsendpay").map(|r| r.uid).collect();
                    if !w.is_empty() {
                        self.fail_rpc(w[crate::gen::pick(i, w.len())], code);
                    }
                }
                Step::SyncWarning(on) => {
                    self.shared.lock().unwrap().node.sync_warning = on;
                }
                Step::AnswerErr(i, code) => {
                    let a = self.answerable();
                    if !a.is_empty() {
                        self.fail_rpc(a[crate::gen::pick(i, a.len())], code);
                    }
                }
                Step::PayPart(i) => {
                    let c = self.running_pays();
                    if !c.is_empty() {
                        self.pay_part(c[crate::gen::pick(i, c.len())]);
                    }
                }
                Step::PayFinish(i, o) => {
                    let c = self.running_pays();
                    if !c.is_empty() {
                        self.pay_finish(c[crate::gen::pick(i, c.len())], o);
                    }
                }
                Step::Part(i, o) => {
                    let p = self.pending_parts();
                    if !p.is_empty() {
                        self.resolve_part(p[crate::gen::pick(i, p.len())], o);
                    }
                }
                Step::Tick(n) => self.tick(5 * n.max(1) as u64).await,
                Step::Block(h) => self.block(lt, h),
                Step::Height(h) => {
                    let mut s = self.shared.lock().unwrap();
                    s.node.height = h;
                    s.push(Ev::NodeHeight { h });
                }
                Step::Crash { down, lose_last, reverse } => {
                    // 255 = a very long outage (more than 65535 s), 254 = the wall clock was stepped back by 50 s while down
                    let (down_s, clock_back_s) = match down {
                        255 => (100_000, 0),
                        254 => (0, 50),
                        d => (5 * d as u64, 0),
                    };
                    return LifeEnd::Crash { down_s, lose_last, reverse, clock_back_s };
                }
            }
            if let Some((down_s, lose_last)) = self.crash_pending.take() {
                self.settle().await;
                let (down_s, clock_back_s) = if down_s == CLOCK_BACK_MARK { (0, 50) } else { (down_s, 0) };
                return LifeEnd::Crash { down_s, lose_last, reverse: false, clock_back_s };
            }
        }
        self.shared.lock().unwrap().push(Ev::DrainStart);
        self.drain(lt).await;
        if let Some((down_s, lose_last)) = self.crash_pending.take() {
            let (down_s, clock_back_s) = if down_s == CLOCK_BACK_MARK { (0, 50) } else { (down_s, 0) };
            return LifeEnd::Crash { down_s, lose_last, reverse: false, clock_back_s };
        }
        if self.scn.probe {
            self.probe_same_lifetime(lt).await;
        }
        LifeEnd::Done
    }

    fn drift_exceeded(&self) -> bool {
        // settle adds 1 ms per tick; keep the sub-grid drift of a lifetime below 3 s
        let s = self.shared.lock().unwrap();
        let el = s.t0.map(|t| t.elapsed().as_millis() as u64).unwrap_or(0);
        el % 5000 > 3000
    }

    /// Fair drain: answer everything FIFO, run pay commands and parts per the
    /// payment's script, deliver what is left, advance time until quiescent.
    async fn drain(&mut self, lt: &Lifetime) {
        let mut idle_ticks = 0;
        for _ in 0..400 {
            self.settle().await;
            if self.crash_pending.is_some() {
                return;
            }
            let a = self.answerable();
            if let Some(uid) = a.first() {
                self.answer_rpc(*uid);
                idle_ticks = 0;
                continue;
            }
            let pays = self.running_pays();
            if let Some(uid) = pays.first() {
                self.drain_pay(*uid);
                idle_ticks = 0;
                continue;
            }
            let parts = self.pending_parts();
            if let Some(p) = parts.first() {
                let ok = self.part_recipient_ok(*p);
                self.resolve_part(*p, if ok { PartOutcome::Complete } else { PartOutcome::Fail(203) });
                idle_ticks = 0;
                continue;
            }
            let u = self.undelivered();
            if let Some(h) = u.first() {
                self.deliver(lt, *h, false);
                idle_ticks = 0;
                continue;
            }
            if !self.release_holds && !self.scn.hold.is_empty() && !self.shared.lock().unwrap().pending.is_empty() {
                // nothing else can happen: withheld RPCs are answered now
                self.release_holds = true;
                continue;
            }
            let unanswered = (0..self.scn.htlcs.len()).any(|h| self.delivered[h] && self.answered[h].is_none());
            if !unanswered && self.direct_pending() == 0 {
                break;
            }
            if idle_ticks >= 3 {
                break; // proved hang inside the model
            }
            idle_ticks += 1;
            let t = (self.scn.cfg.mpp_timeout_s.max(self.scn.cfg_later.as_ref().map(|c| c.mpp_timeout_s).unwrap_or(0)).max(60)) + 5;
            self.tick(t).await;
        }
        self.settle().await;
    }

    fn direct_pending(&self) -> usize {
        let s = self.shared.lock().unwrap();
        let done = s.log.iter().filter(|r| matches!(r.ev, Ev::CallResult { .. })).count();
        self.direct_started - done.min(self.direct_started)
    }

    fn part_recipient_ok(&self, part: usize) -> bool {
        let s = self.shared.lock().unwrap();
        let h = s.node.parts[part].hash;
        self.scn.payments.iter().find(|p| p.hash() == h).map(|p| p.recipient_ok).unwrap_or(false)
    }

    fn drain_pay(&mut self, uid: u64) {
        let (hash, created, has_pending, has_complete) = {
            let s = self.shared.lock().unwrap();
            let r = s.pending.iter().find(|r| r.uid == uid).unwrap();
            let hash = r.hash;
            let created = s.node.parts.iter().filter(|p| p.cmd == Some(uid)).count();
            let (hp, hc) = match hash {
                Some(h) => (s.node.parts.iter().any(|p| p.cmd == Some(uid) && p.status == PartStatus::Pending), s.node.has_complete(&h)),
                None => (false, false),
            };
            (hash, created, hp, hc)
        };
        let spec = hash.and_then(|h| self.scn.payments.iter().find(|p| p.hash() == h).cloned());
        let want_parts = spec.as_ref().map(|p| p.drain_parts as usize).unwrap_or(0);
        if hash.is_some() && !has_complete && created < want_parts {
            self.pay_part(uid);
        } else if has_pending {
            let part = {
                let s = self.shared.lock().unwrap();
                s.node.parts.iter().find(|p| p.cmd == Some(uid) && p.status == PartStatus::Pending).map(|p| p.uid)
            };
            if let Some(p) = part {
                let ok = spec.map(|p| p.recipient_ok).unwrap_or(false);
                self.resolve_part(p, if ok { PartOutcome::Complete } else { PartOutcome::Fail(203) });
            }
        } else if has_complete {
            self.pay_finish(uid, PayOutcome::Complete);
        } else {
            self.pay_finish(uid, PayOutcome::Error(210));
        }
    }

    /// C09 probe: in a fresh lifetime (after the explored history has
    /// quiesced) a fully funded single HTLC for payment 0 with a cooperative
    /// recipient is delivered and the world drained. A failing probe that
    /// leaves the stored image unchanged is a fixpoint, hence permanent.
    /// appends a fully funded HTLC for payment 0 (cooperative recipient) to the scenario
    fn push_probe_htlc(&mut self, need: u64, cfg: &Cfg) -> Option<usize> {
        let height = self.shared.lock().unwrap().node.height;
        self.scn.payments[0].recipient_ok = true;
        if self.scn.payments[0].drain_parts == 0 {
            self.scn.payments[0].drain_parts = 1;
        }
        let rel = cfg.policy_delta as i64 + 10;
        let h = HtlcSpec {
            pay: 0,
            hash_of: None,
            amount_msat: need,
            total_msat: Some(need),
            forward_msat: Some(need),
            cltv_expiry: (height as i64 + rel).min(u32::MAX as i64) as u32,
            cltv_rel: rel,
            forward: false,
            meta: Meta::Normal,
            extra: vec![],
            raw_payload: None,
        };
        self.scn.htlcs.push(h);
        let idx = self.scn.htlcs.len() - 1;
        let class = self.scn.classify(idx);
        if !matches!(class, Class::Trampoline { .. }) {
            self.scn.htlcs.pop();
            return None;
        }
        self.classes.push(class.clone());
        self.mon.add_htlc(&self.scn, idx, class);
        self.delivered.push(false);
        self.answered.push(None);
        Some(idx)
    }

    /// C09, first probe: a later fully funded set in the SAME process (no restart), e.g. after a single
    /// failed datastore write. Unanswered or failed with an unchanged stored image = stuck.
    async fn probe_same_lifetime(&mut self, lt: &Lifetime) {
        self.in_probe = true;
        self.crash_pending = None;
        let p0 = self.scn.payments[0].clone();
        let cfg_now = {
            let life = self.shared.lock().unwrap().life;
            self.scn.cfg_at(life).clone()
        };
        let need = needed_total(&cfg_now, p0.deliver_amount());
        if need == u64::MAX || need > 1_000_000_000_000_000_000 {
            return;
        }
        let before = self.shared.lock().unwrap().node.image_of(&p0.hash());
        let Some(idx) = self.push_probe_htlc(need, &cfg_now) else { return };
        self.shared.lock().unwrap().push(Ev::ProbeStart { h: idx });
        self.deliver(lt, idx, false);
        self.drain(lt).await;
        let after = self.shared.lock().unwrap().node.image_of(&p0.hash());
        let resolved = self.answered[idx].as_ref().map(|r| r["result"] == "resolve").unwrap_or(false);
        self.mon.probe_result(idx, 100, resolved, before == after, self.answered[idx].clone());
    }

    fn run_probes(&mut self) {
        self.in_probe = true;
        self.crash_pending = None;
        let p0 = self.scn.payments[0].clone();
        let amount = p0.deliver_amount();
        let cfg_next = self.cfg_next();
        let need = needed_total(&cfg_next, amount);
        if need == u64::MAX || need > 1_000_000_000_000_000_000 {
            return;
        }
        for round in 0..3 {
            let before = self.shared.lock().unwrap().node.image_of(&p0.hash());
            let Some(idx) = self.push_probe_htlc(need, &cfg_next) else { return };
            {
                let mut s = self.shared.lock().unwrap();
                s.pending.clear();
                s.life += 1;
                s.push(Ev::Crash { down_s: 0, lose_last: false });
            }
            self.observe();
            let seed = self.scn.tokio_seed.wrapping_add(1000 + round as u64);
            let rt = tokio::runtime::Builder::new_current_thread()
                .enable_all()
                .start_paused(true)
                .rng_seed(tokio::runtime::RngSeed::from_bytes(&seed.to_le_bytes()))
                .build()
                .expect("runtime");
            rt.block_on(self.probe_lifetime(idx));
            drop(rt);
            let _ = std::fs::remove_file(&self.sock_path);
            let after = self.shared.lock().unwrap().node.image_of(&p0.hash());
            let resolved = self.answered[idx].as_ref().map(|r| r["result"] == "resolve").unwrap_or(false);
            self.mon.probe_result(idx, round, resolved, before == after, self.answered[idx].clone());
            if resolved || before == after {
                break;
            }
        }
    }

    async fn probe_lifetime(&mut self, idx: usize) {
        let lt = self.start_lifetime().await;
        let re: Vec<usize> = (0..self.scn.htlcs.len()).filter(|h| self.delivered[*h] && self.answered[*h].is_none()).collect();
        for h in re {
            self.deliver(&lt, h, true);
        }
        self.settle().await;
        self.shared.lock().unwrap().push(Ev::ProbeStart { h: idx });
        self.deliver(&lt, idx, false);
        self.drain(&lt).await;
        let mut s = self.shared.lock().unwrap();
        let el = s.t0.map(|t| t.elapsed().as_millis() as u64).unwrap_or(0);
        s.base_ms += el;
        s.t0 = None;
    }
}

impl World {
    pub fn log(&self) -> Vec<Rec> {
        self.shared.lock().unwrap().log.clone()
    }
}

trait PendingNote: Sized {
    fn pending_note(self, params: &Value, grid: u64, meta: &mut std::collections::BTreeMap<Vec<String>, (u64, u64)>) -> Self;
}

impl PendingNote for (Value, bool, bool) {
    /// remembers when a Pending state record was (re)written, for the ageing at the next crash
    fn pending_note(self, params: &Value, grid: u64, meta: &mut std::collections::BTreeMap<Vec<String>, (u64, u64)>) -> Self {
        if self.1 {
            let key: Vec<String> = params["key"].as_array().map(|a| a.iter().filter_map(|x| x.as_str().map(String::from)).collect()).unwrap_or_default();
            let is_state = key.last().map(|k| k == "state").unwrap_or(false);
            let is_pending = params["string"].as_str().map(|s| s.contains("Pending")).unwrap_or(false);
            if is_state && is_pending {
                meta.insert(key, (grid, 0));
            }
        }
        self
    }
}
