//! The simulated lightningd (trusted base of WORLD and E2E): datastore, sendpay
//! parts, pay commands, height. Every RPC takes effect atomically when the
//! driver *answers* it; a request that has merely arrived has had no effect.
use serde::{Deserialize, Serialize};
use serde_json::{json, Value};
use std::collections::BTreeMap;

#[derive(Clone, Copy, Debug, PartialEq, Eq, Serialize, Deserialize, Hash)]
pub enum PartStatus {
    Pending,
    Complete,
    Failed,
}

#[derive(Clone, Debug)]
pub struct Part {
    pub uid: usize,
    pub hash: [u8; 32],
    pub groupid: u64,
    pub partid: u64,
    pub status: PartStatus,
    pub fail_code: i32,
    /// pay command (rpc uid) that created it, if any
    pub cmd: Option<u64>,
}

#[derive(Clone, Copy, Debug, PartialEq, Eq, Serialize, Deserialize, Hash)]
pub enum FaultKind {
    /// error reply, no effect
    Reject,
    /// effect applied, error reply
    AppliedButError,
}

#[derive(Default)]
pub struct NodeState {
    pub datastore: BTreeMap<Vec<String>, (String, u64)>,
    pub parts: Vec<Part>,
    pub height: u32,
    /// number of datastore writes answered so far (fault positions count these)
    pub writes_seen: u32,
    pub reads_seen: u32,
    /// listdatastore answers so far
    pub ds_reads_seen: u32,
    /// known preimages: hash -> preimage (a part completes only with the true preimage)
    pub preimages: BTreeMap<[u8; 32], [u8; 32]>,
    pub next_group: u64,
    /// getinfo replies carry the sync warnings
    pub sync_warning: bool,
}

pub fn rpc_error(code: i32, msg: &str) -> Value {
    json!({"error": {"code": code, "message": msg}})
}

pub fn parse_msat(v: &Value) -> Option<u64> {
    if let Some(u) = v.as_u64() {
        return Some(u);
    }
    let s = v.as_str()?;
    s.trim_end_matches("msat").parse().ok()
}

pub fn parse_hash(v: &Value) -> Option<[u8; 32]> {
    let b = hex::decode(v.as_str()?).ok()?;
    b.try_into().ok()
}

impl NodeState {
    pub fn live(&self, hash: &[u8; 32]) -> bool {
        self.parts.iter().any(|p| &p.hash == hash && p.status != PartStatus::Failed)
    }
    pub fn has_complete(&self, hash: &[u8; 32]) -> bool {
        self.parts.iter().any(|p| &p.hash == hash && p.status == PartStatus::Complete)
    }
    pub fn has_pending(&self, hash: &[u8; 32]) -> bool {
        self.parts.iter().any(|p| &p.hash == hash && p.status == PartStatus::Pending)
    }

    pub fn add_part(&mut self, hash: [u8; 32], groupid: u64, cmd: Option<u64>) -> usize {
        let partid = self.parts.iter().filter(|p| p.hash == hash && p.groupid == groupid).count() as u64;
        let uid = self.parts.len();
        self.parts.push(Part { uid, hash, groupid, partid, status: PartStatus::Pending, fail_code: 0, cmd });
        uid
    }

    pub fn new_group(&mut self) -> u64 {
        self.next_group += 1;
        self.next_group
    }

    fn part_json(&self, p: &Part) -> Value {
        let mut v = json!({
            "id": p.uid as u64 + 1,
            "created_index": p.uid as u64 + 1,
            "groupid": p.groupid,
            "payment_hash": hex::encode(p.hash),
            "status": match p.status { PartStatus::Pending => "pending", PartStatus::Complete => "complete", PartStatus::Failed => "failed" },
            "amount_sent_msat": 1000u64,
            "created_at": 1_700_000_000u64,
        });
        // single-part payments have no partid field in lightningd
        if p.partid != 0 {
            v["partid"] = json!(p.partid);
        }
        if p.status == PartStatus::Complete {
            v["payment_preimage"] = json!(hex::encode(self.preimages[&p.hash]));
        }
        v
    }

    /// datastore: returns (reply, effect applied?)
    pub fn datastore_write(&mut self, params: &Value) -> (Value, bool) {
        let key: Vec<String> = match params.get("key") {
            Some(Value::Array(a)) => a.iter().filter_map(|x| x.as_str().map(String::from)).collect(),
            Some(Value::String(s)) => vec![s.clone()],
            _ => return (rpc_error(-32602, "missing key"), false),
        };
        let string = match params.get("string").and_then(|s| s.as_str()) {
            Some(s) => s.to_string(),
            None => match params.get("hex").and_then(|s| s.as_str()) {
                Some(h) => format!("hex:{h}"),
                None => return (rpc_error(-32602, "missing string/hex"), false),
            },
        };
        let mode = params.get("mode").and_then(|m| m.as_str()).unwrap_or("must-create");
        let generation = params.get("generation").and_then(|g| g.as_u64());
        let existing = self.datastore.get(&key).cloned();
        if let (Some(g), Some((_, cur))) = (generation, &existing) {
            if g != *cur {
                return (rpc_error(1204, "generation is different"), false);
            }
        }
        if generation.is_some() && existing.is_none() {
            return (rpc_error(1203, "does not exist (generation given)"), false);
        }
        let newgen = match (mode, existing) {
            ("must-create", Some(_)) => return (rpc_error(1202, "already exists"), false),
            ("must-create", None) => 0,
            ("must-replace", None) => return (rpc_error(1203, "does not exist"), false),
            ("must-replace", Some((_, g))) => g + 1,
            ("create-or-replace", Some((_, g))) => g + 1,
            ("create-or-replace", None) => 0,
            ("must-append", _) | ("create-or-append", _) => return (rpc_error(-32602, "append modes not modelled"), false),
            _ => return (rpc_error(-32602, "unknown mode"), false),
        };
        self.datastore.insert(key.clone(), (string.clone(), newgen));
        (json!({"result": {"key": key, "generation": newgen, "string": string}}), true)
    }

    /// deldatastore: returns (reply, effect applied?)
    pub fn datastore_delete(&mut self, params: &Value) -> (Value, bool) {
        let key: Vec<String> = match params.get("key") {
            Some(Value::Array(a)) => a.iter().filter_map(|x| x.as_str().map(String::from)).collect(),
            Some(Value::String(s)) => vec![s.clone()],
            _ => return (rpc_error(-32602, "missing key"), false),
        };
        let generation = params.get("generation").and_then(|g| g.as_u64());
        match self.datastore.get(&key).cloned() {
            None => (rpc_error(1200, "does not exist"), false),
            Some((_, cur)) if generation.map(|g| g != cur).unwrap_or(false) => (rpc_error(1201, "generation is different"), false),
            Some((string, cur)) => {
                self.datastore.remove(&key);
                (json!({"result": {"key": key, "generation": cur, "string": string}}), true)
            }
        }
    }

    pub fn listdatastore(&self, params: &Value) -> Value {
        let key: Vec<String> = match params.get("key") {
            Some(Value::Array(a)) => a.iter().filter_map(|x| x.as_str().map(String::from)).collect(),
            Some(Value::String(s)) => vec![s.clone()],
            _ => vec![],
        };
        let out: Vec<Value> = self
            .datastore
            .iter()
            .filter(|(k, _)| k.len() >= key.len() && k[..key.len()] == key[..])
            .map(|(k, (s, g))| json!({"key": k, "generation": g, "string": s}))
            .collect();
        json!({"result": {"datastore": out}})
    }

    pub fn listsendpays(&self, params: &Value) -> Value {
        let hash = params.get("payment_hash").and_then(parse_hash);
        let status = params.get("status").and_then(|s| s.as_str());
        let out: Vec<Value> = self
            .parts
            .iter()
            .filter(|p| hash.map(|h| h == p.hash).unwrap_or(true))
            .filter(|p| match status {
                Some("pending") => p.status == PartStatus::Pending,
                Some("complete") => p.status == PartStatus::Complete,
                Some("failed") => p.status == PartStatus::Failed,
                _ => true,
            })
            .map(|p| self.part_json(p))
            .collect();
        json!({"result": {"payments": out}})
    }

    /// waitsendpay: None while the part is pending (request stays held).
    pub fn waitsendpay(&self, params: &Value) -> Option<Value> {
        let hash = params.get("payment_hash").and_then(parse_hash)?;
        let groupid = params.get("groupid").and_then(|g| g.as_u64());
        let partid = params.get("partid").and_then(|g| g.as_u64()).unwrap_or(0);
        let part = self
            .parts
            .iter()
            .filter(|p| p.hash == hash && p.partid == partid && groupid.map(|g| g == p.groupid).unwrap_or(true))
            .last();
        match part {
            None => Some(rpc_error(208, "Never attempted payment part for this hash")),
            Some(p) => match p.status {
                PartStatus::Pending => None,
                PartStatus::Complete => Some(json!({"result": self.part_json(p)})),
                PartStatus::Failed => Some(json!({"error": {"code": p.fail_code, "message": "failed part", "data": {"failcode": 4103}}})),
            },
        }
    }

    pub fn getinfo(&self, id_hex: &str) -> Value {
        let mut v = self.getinfo_plain(id_hex);
        if self.sync_warning {
            // lightningd adds these while it is catching up; the height is valid all the same
            v["result"]["warning_bitcoind_sync"] = json!("Bitcoind is not up-to-date with network.");
            v["result"]["warning_lightningd_sync"] = json!("Still loading latest blocks from bitcoind.");
        }
        v
    }

    fn getinfo_plain(&self, id_hex: &str) -> Value {
        json!({"result": {
            "id": id_hex,
            "alias": "SIMNODE",
            "color": "020202",
            "num_peers": 0, "num_pending_channels": 0, "num_active_channels": 0, "num_inactive_channels": 0,
            "version": "v24.05-sim",
            "blockheight": self.height,
            "network": "regtest",
            "fees_collected_msat": 0,
            "lightning-dir": "/nowhere",
            "address": [], "binding": [],
        }})
    }

    /// Stored state of a hash as (kind, raw json) where kind in Free/Pending/Succeeded/Absent.
    pub fn stored_state(&self, hash: &[u8; 32]) -> (&'static str, Option<Value>) {
        let key = vec!["trampoline".to_string(), "payments".to_string(), hex::encode(hash), "state".to_string()];
        match self.datastore.get(&key) {
            None => ("Absent", None),
            Some((s, _)) => {
                let v: Value = serde_json::from_str(s).unwrap_or(Value::Null);
                if v == json!("Free") {
                    ("Free", Some(v))
                } else if v.get("Pending").is_some() {
                    ("Pending", Some(v))
                } else if v.get("Succeeded").is_some() {
                    ("Succeeded", Some(v))
                } else {
                    ("Garbage", Some(v))
                }
            }
        }
    }

    /// Snapshot of everything stored under one hash (used by the C09 probe fixpoint test).
    pub fn image_of(&self, hash: &[u8; 32]) -> Vec<(Vec<String>, String, u64)> {
        let h = hex::encode(hash);
        self.datastore
            .iter()
            .filter(|(k, _)| k.len() > 2 && k[2] == h)
            // the generation of an attempt record is never read by the plugin (it writes those keys
            // unconditionally); only the state key's generation takes part in its decisions
            .map(|(k, (s, g))| (k.clone(), s.clone(), if k.last().map(|x| x == "state").unwrap_or(false) { *g } else { 0 }))
            .collect()
    }
}
