//! Scenario values for the WORLD engine: configuration, payments, HTLCs,
//! environment steps, faults — plus rendering into the JSON the node would send
//! and the harness's own classification of every HTLC (from its construction
//! and the property texts, never from the code under test).
use crate::gen::*;
use crate::node::FaultKind;
use crate::refmodel::*;
use lightning_invoice::{Bolt11Invoice, Currency, InvoiceBuilder, PaymentSecret, RouteHint, RouteHintHop, RoutingFees};
use proptest::prelude::*;
use secp256k1::hashes::{sha256, Hash};
use secp256k1::{PublicKey, Secp256k1, SecretKey};
use serde::{Deserialize, Serialize};
use serde_json::{json, Value};
use std::time::Duration;

pub const TLV_META: u64 = 16;
pub const TLV_INVOICE: u64 = 33001;
pub const TLV_AMOUNT: u64 = 33003;

#[derive(Clone, Debug, Serialize, Deserialize, PartialEq)]
pub struct Cfg {
    pub base: u32,
    pub ppm: u32,
    pub policy_delta: u16,
    pub cltv_delta: u16,
    /// seconds, multiple of 5
    pub mpp_timeout_s: u64,
    pub allow_self: bool,
}

impl Default for Cfg {
    fn default() -> Self {
        Cfg { base: 0, ppm: 5000, policy_delta: 1008, cltv_delta: 34, mpp_timeout_s: 60, allow_self: true }
    }
}

#[derive(Clone, Copy, Debug, Serialize, Deserialize, PartialEq, Eq, Hash)]
pub enum Hints {
    None,
    Other,
    OursLast,
    OursNotLast,
    OtherAndOursLast,
}

#[derive(Clone, Debug, Serialize, Deserialize, PartialEq)]
pub struct PaymentSpec {
    /// preimage = 32 x this byte (payments of one scenario use distinct bytes)
    pub preimage: u8,
    /// 0 = preimage is 32 x `preimage`; otherwise the last 16 bytes are this byte (more than 256 distinct payments)
    #[serde(default)]
    pub preimage_hi: u8,
    pub invoice_amount: Option<u64>,
    /// amount the sender declares for amountless invoices (TLV 33003)
    pub tlv_amount: u64,
    pub hints: Hints,
    pub explicit_payee: bool,
    /// fate of outgoing parts when the driver drains: complete or fail
    pub recipient_ok: bool,
    /// parts a pay command creates while draining (0 = fails without a part)
    pub drain_parts: u8,
}

impl Scenario {
    /// configuration in force during lifetime `life` (0-based)
    pub fn cfg_at(&self, life: u32) -> &Cfg {
        match (&self.cfg_later, life) {
            (Some(c), l) if l >= 1 => c,
            _ => &self.cfg,
        }
    }
}

impl PaymentSpec {
    pub fn preimage_bytes(&self) -> [u8; 32] {
        let mut b = [self.preimage; 32];
        if self.preimage_hi != 0 {
            for x in b[16..].iter_mut() {
                *x = self.preimage_hi;
            }
        }
        b
    }
    pub fn hash(&self) -> [u8; 32] {
        sha256::Hash::hash(&self.preimage_bytes()).to_byte_array()
    }
    /// amount to deliver according to the property text
    pub fn deliver_amount(&self) -> u64 {
        self.invoice_amount.unwrap_or(self.tlv_amount)
    }
}

#[derive(Clone, Debug, Serialize, Deserialize, PartialEq)]
pub enum Meta {
    /// [33001: invoice] and, for amountless invoices, [33003: declared amount]
    Normal,
    /// 33001 plus an explicit 33003 field with these raw bytes
    WithAmount(Hx),
    /// only 33001, even when the invoice is amountless
    InvoiceOnly,
    /// a different invoice (other description / amount) for the same hash
    AltInvoice { amount: Option<u64> },
    /// explicit payee field that the signature does not verify against
    BadSig,
    /// 33001 with a valid invoice naming its payee explicitly, signature recovery id flipped
    FlippedRecid,
    /// 33001 with a valid invoice whose expiry field is not minimally encoded
    NonMinimalExpiry,
    NotUtf8,
    NotBolt11,
    /// 33001 holds this (valid UTF-8, non-ASCII, not an invoice) string
    GarbageInvoice(String),
    /// TLV 16 present with these raw bytes as value
    RawMeta(Hx),
    /// no TLV 16 at all
    Absent,
    /// metadata in length-prefixed form: bigsize(len) || stream with 33003 (the only
    /// shape that makes the plugin rewrite the payload)
    LenPrefixed { with_invoice: bool },
}

#[derive(Clone, Debug, Serialize, Deserialize, PartialEq)]
pub struct HtlcSpec {
    /// payment whose invoice the metadata carries
    pub pay: u8,
    /// payment whose hash the HTLC itself carries (None = same as `pay`)
    pub hash_of: Option<u8>,
    pub amount_msat: u64,
    pub total_msat: Option<u64>,
    pub forward_msat: Option<u64>,
    pub cltv_expiry: u32,
    pub cltv_rel: i64,
    /// onion.short_channel_id present (plain forward)
    pub forward: bool,
    pub meta: Meta,
    /// other records of the onion payload (types != 16)
    pub extra: Vec<(u64, Hx)>,
    /// when set, replaces the whole onion.payload hex (arbitrary bytes, C06)
    pub raw_payload: Option<Hx>,
}

#[derive(Clone, Copy, Debug, Serialize, Deserialize, PartialEq, Eq, Hash)]
pub enum PayOutcome {
    Complete,
    /// JSON-RPC error with this code (203/205/206/207/210)
    Error(i32),
    /// reply that cln_rpc cannot parse (seen by the plugin as an error without code)
    Garbled,
    /// result with status pending (with or without a preimage field)
    Pending { with_preimage: bool },
    /// result with status failed
    Failed { warning: bool },
}

#[derive(Clone, Copy, Debug, Serialize, Deserialize, PartialEq, Eq, Hash)]
pub enum PartOutcome {
    Complete,
    Fail(i32),
}

#[derive(Clone, Debug, Serialize, Deserialize, PartialEq)]
pub enum Step {
    /// deliver the i-th not yet delivered HTLC
    Deliver(u16),
    /// answer the i-th answerable pending RPC (datastore/listdatastore/listsendpays/released waitsendpay)
    Answer(u16),
    /// a running pay command creates a part
    PayPart(u16),
    PayFinish(u16, PayOutcome),
    /// the i-th pending part resolves
    Part(u16, PartOutcome),
    /// virtual time advances by 5 s x n
    Tick(u8),
    /// block_added notification with this height (node height follows if higher)
    Block(u32),
    /// node height changes silently
    Height(u32),
    Crash { down: u8, lose_last: bool, reverse: bool },
    /// answer *every* answerable RPC repeatedly until quiet (shortcut that keeps schedules short)
    Flush,
    /// answer the i-th answerable RPC with a JSON-RPC error of this code (no effect)
    AnswerErr(u16, i32),
    /// from now on getinfo replies carry (true) / do not carry (false) the sync warnings
    SyncWarning(bool),
    /// the i-th outstanding waitsendpay (also one held on a pending part) gets an RPC-level error of this code
    FailWait(u16, i32),
}

#[derive(Clone, Debug, Serialize, Deserialize, PartialEq)]
pub struct Scenario {
    pub cfg: Cfg,
    pub payments: Vec<PaymentSpec>,
    pub htlcs: Vec<HtlcSpec>,
    pub steps: Vec<Step>,
    /// (index of the datastore write counted from 0 over the whole scenario, kind)
    pub write_faults: Vec<(u8, FaultKind)>,
    /// (index of read RPC (listdatastore/listsendpays/waitsendpay answer), error code)
    pub read_faults: Vec<(u8, i32)>,
    pub start_height: u32,
    pub tokio_seed: u64,
    /// allow pay results `failed` in any part configuration (C16 only)
    pub c16_profile: bool,
    /// after the drain, inject a fresh fully funded set for payment 0 with a cooperative recipient
    pub probe: bool,
    /// unit worlds: provider calls started at the beginning of the first lifetime
    #[serde(default)]
    pub direct: Vec<Direct>,
    /// parts existing before anything runs: (payment index, 0 pending / 1 complete / 2.. failed with code 200+n)
    #[serde(default)]
    pub initial_parts: Vec<(u8, u16)>,
    /// getinfo polls after the startup one are answered by driver steps (C20)
    #[serde(default)]
    pub manual_getinfo: bool,
    /// systematic crash points: (index of the node-side effect after which the node crashes, downtime x5 s, lose_last)
    #[serde(default)]
    pub crash_at: Vec<(u16, u8, bool)>,
    /// C14: from its k-th RPC on (0-based, counted per lifetime), every RPC of this payment's hash is withheld
    /// forever, its pay commands make no progress and its parts never resolve
    #[serde(default)]
    pub freeze: Option<(u8, u16)>,
    /// delayed RPCs: (ordinal of the RPC among all non-getinfo arrivals of the scenario, number of further
    /// node-side effects during which it is withheld); released at the latest when nothing else can happen
    #[serde(default)]
    pub hold: Vec<(u16, u16)>,
    /// with manual_getinfo: polls after the startup one are never answered (a stuck getinfo)
    #[serde(default)]
    pub freeze_polls: bool,
    /// payments for which an earlier lifetime left a Pending record behind (the first lifetime is then a restart)
    #[serde(default)]
    pub initial_pending: Vec<u8>,
    /// (index of the listdatastore answer counted over the whole scenario, error code): the state read alone fails
    #[serde(default)]
    pub ds_read_faults: Vec<(u8, i32)>,
    /// payments that an earlier run (of the release this harness is pinned to) completed: a `Succeeded` record in
    /// that release's stored format and a complete part exist before anything runs
    #[serde(default)]
    pub initial_succeeded: Vec<u8>,
    /// configuration of every lifetime after the first (the operator changed options before restarting)
    #[serde(default)]
    pub cfg_later: Option<Cfg>,
    /// the failure-notification service (e-mail) never returns
    #[serde(default)]
    pub notif_stall: bool,
    /// (trampoline-payment-timeout in seconds, trampoline-xpay) of the pay wrapper; None = (60, false)
    #[serde(default)]
    pub pay_opts: Option<(u16, bool)>,
    /// C14: every datastore / listdatastore RPC for this payment's hash is answered with an error
    #[serde(default)]
    pub fail_store: Option<u8>,
}

#[derive(Clone, Copy, Debug, Serialize, Deserialize, PartialEq, Eq, Hash)]
pub enum Direct {
    WaitPayment(u8),
    Pay(u8),
}

// ---------------------------------------------------------------- keys

pub fn local_secret() -> SecretKey {
    SecretKey::from_slice(&[
        0xe1, 0x26, 0xf6, 0x8f, 0x7e, 0xaf, 0xcc, 0x8b, 0x74, 0xf5, 0x4d, 0x26, 0x9f, 0xe2, 0x06, 0xbe, 0x71, 0x50, 0x00, 0xf9, 0x4d,
        0xac, 0x06, 0x7d, 0x1c, 0x04, 0xa8, 0xca, 0x3b, 0x2d, 0xb7, 0x34,
    ])
    .unwrap()
}
pub fn dest_secret() -> SecretKey {
    SecretKey::from_slice(&[0x42; 32]).unwrap()
}
pub fn other_secret() -> SecretKey {
    SecretKey::from_slice(&[0x17; 32]).unwrap()
}
pub fn pubkey(sk: &SecretKey) -> PublicKey {
    PublicKey::from_secret_key(&Secp256k1::new(), sk)
}
pub fn local_pubkey() -> PublicKey {
    pubkey(&local_secret())
}

fn hop(src: PublicKey, scid: u64) -> RouteHintHop {
    RouteHintHop {
        src_node_id: src,
        short_channel_id: scid,
        fees: RoutingFees { base_msat: 1000, proportional_millionths: 10 },
        cltv_expiry_delta: 80,
        htlc_minimum_msat: Some(1),
        htlc_maximum_msat: Some(1_000_000_000),
    }
}

#[derive(Clone, Copy, PartialEq, Eq, Debug)]
pub enum InvKind {
    Normal,
    Alt(Option<u64>),
    BadSig,
    /// valid signature, but the expiry field is encoded with a leading zero group: parsing and
    /// re-serialising the invoice gives a different string
    NonMinimalExpiry,
    /// explicit payee field + a signature whose recovery id is flipped: verifies against the payee
    /// field (the recovery id is ignored then) but recovers to an unrelated key
    FlippedRecid,
}

/// Builds the bech32 invoice string for a payment (deterministic).
pub fn build_invoice(p: &PaymentSpec, kind: InvKind) -> String {
    let secp = Secp256k1::new();
    let hash = sha256::Hash::from_byte_array(p.hash());
    let desc = match kind {
        InvKind::Alt(_) => "Trampoline this (second invoice)".to_string(),
        _ => "Trampoline this".to_string(),
    };
    let mut b = InvoiceBuilder::new(Currency::Bitcoin)
        .description(desc)
        .payment_hash(hash)
        .payment_secret(PaymentSecret([42u8; 32]))
        .duration_since_epoch(Duration::from_secs(1_700_000_000))
        .min_final_cltv_expiry_delta(144);
    let amount = match kind {
        InvKind::Alt(a) => a,
        _ => p.invoice_amount,
    };
    if let Some(a) = amount {
        b = b.amount_milli_satoshis(a);
    }
    let ours = local_pubkey();
    let other = pubkey(&other_secret());
    match p.hints {
        Hints::None => {}
        Hints::Other => b = b.private_route(RouteHint(vec![hop(other, 1)])),
        Hints::OursLast => b = b.private_route(RouteHint(vec![hop(other, 1), hop(ours, 2)])),
        Hints::OursNotLast => b = b.private_route(RouteHint(vec![hop(ours, 2), hop(other, 1)])),
        Hints::OtherAndOursLast => {
            b = b.private_route(RouteHint(vec![hop(other, 1)])).private_route(RouteHint(vec![hop(ours, 2)]))
        }
    }
    let dest = dest_secret();
    match kind {
        InvKind::NonMinimalExpiry => {
            use bech32::u5;
            let mut raw = b.build_raw().expect("raw invoice");
            // tag 6 (`x`, expiry), data length 4, value 3600 = [3,16,16] in base 32 with a leading 0
            let field: Vec<u5> = [6u8, 0, 4, 0, 3, 16, 16].iter().map(|v| u5::try_from_u8(*v).unwrap()).collect();
            raw.data.tagged_fields.push(lightning_invoice::RawTaggedField::UnknownSemantics(field));
            let signed = raw.sign::<_, ()>(|h| Ok(secp.sign_ecdsa_recoverable(h, &dest))).unwrap();
            signed.to_string()
        }
        InvKind::FlippedRecid => {
            let raw = b.payee_pub_key(pubkey(&dest)).build_raw().expect("raw invoice");
            let signed = raw
                .sign::<_, ()>(|h| {
                    let sig = secp.sign_ecdsa_recoverable(h, &dest);
                    let (id, bytes) = sig.serialize_compact();
                    let flipped = secp256k1::ecdsa::RecoveryId::from_i32(id.to_i32() ^ 1).unwrap();
                    Ok(secp256k1::ecdsa::RecoverableSignature::from_compact(&bytes, flipped).unwrap())
                })
                .unwrap();
            signed.to_string()
        }
        InvKind::BadSig => {
            // explicit payee = `other`, but signed by `dest`: check_signature must fail
            let raw = b.payee_pub_key(other).build_raw().expect("raw invoice");
            let signed = raw
                .sign::<_, ()>(|h| Ok(secp.sign_ecdsa_recoverable(h, &dest)))
                .unwrap();
            signed.to_string()
        }
        _ => {
            if p.explicit_payee {
                b = b.payee_pub_key(pubkey(&dest));
            }
            b.build_signed(|h| secp.sign_ecdsa_recoverable(h, &dest)).expect("invoice").to_string()
        }
    }
}

pub fn tu64_min(v: u64) -> Vec<u8> {
    let b = v.to_be_bytes();
    let skip = b.iter().take_while(|x| **x == 0).count();
    b[skip..].to_vec()
}

impl Scenario {
    pub fn htlc_hash(&self, h: &HtlcSpec) -> [u8; 32] {
        let idx = h.hash_of.unwrap_or(h.pay) as usize % self.payments.len();
        self.payments[idx].hash()
    }
    pub fn htlc_payment(&self, h: &HtlcSpec) -> &PaymentSpec {
        &self.payments[h.pay as usize % self.payments.len()]
    }

    /// bytes of the TLV-16 value, None when the record is absent
    pub fn metadata_bytes(&self, h: &HtlcSpec) -> Option<Vec<u8>> {
        let p = self.htlc_payment(h);
        let inv = |k| build_invoice(p, k).into_bytes();
        Some(match &h.meta {
            Meta::Normal => {
                let mut recs = vec![(TLV_INVOICE, inv(InvKind::Normal))];
                if p.invoice_amount.is_none() {
                    recs.push((TLV_AMOUNT, tu64_min(p.tlv_amount)));
                }
                encode_stream(&recs)
            }
            Meta::WithAmount(a) => encode_stream(&[(TLV_INVOICE, inv(InvKind::Normal)), (TLV_AMOUNT, a.0.clone())]),
            Meta::InvoiceOnly => encode_stream(&[(TLV_INVOICE, inv(InvKind::Normal))]),
            Meta::AltInvoice { amount } => {
                let mut recs = vec![(TLV_INVOICE, inv(InvKind::Alt(*amount)))];
                if amount.is_none() {
                    recs.push((TLV_AMOUNT, tu64_min(p.tlv_amount)));
                }
                encode_stream(&recs)
            }
            Meta::BadSig => encode_stream(&[(TLV_INVOICE, inv(InvKind::BadSig)), (TLV_AMOUNT, tu64_min(p.tlv_amount))]),
            Meta::NonMinimalExpiry => {
                let mut recs = vec![(TLV_INVOICE, inv(InvKind::NonMinimalExpiry))];
                if p.invoice_amount.is_none() {
                    recs.push((TLV_AMOUNT, tu64_min(p.tlv_amount)));
                }
                encode_stream(&recs)
            }
            Meta::FlippedRecid => {
                let mut recs = vec![(TLV_INVOICE, inv(InvKind::FlippedRecid))];
                if p.invoice_amount.is_none() {
                    recs.push((TLV_AMOUNT, tu64_min(p.tlv_amount)));
                }
                encode_stream(&recs)
            }
            Meta::NotUtf8 => encode_stream(&[(TLV_INVOICE, vec![0xff, 0xfe, 0x80, 0x6c, 0x6e]), (TLV_AMOUNT, tu64_min(p.tlv_amount))]),
            Meta::NotBolt11 => encode_stream(&[(TLV_INVOICE, b"lnbc1notaninvoice".to_vec()), (TLV_AMOUNT, tu64_min(p.tlv_amount))]),
            Meta::GarbageInvoice(g) => encode_stream(&[(TLV_INVOICE, g.clone().into_bytes()), (TLV_AMOUNT, tu64_min(p.tlv_amount))]),
            Meta::RawMeta(b) => b.0.clone(),
            Meta::Absent => return None,
            Meta::LenPrefixed { with_invoice } => {
                let mut recs = vec![];
                if *with_invoice {
                    recs.push((TLV_INVOICE, inv(InvKind::Normal)));
                }
                recs.push((TLV_AMOUNT, tu64_min(p.tlv_amount)));
                encode_payload(&recs)
            }
        })
    }

    /// the records of onion.payload (when not overridden by raw bytes)
    pub fn payload_records(&self, h: &HtlcSpec) -> Vec<Rec> {
        let mut recs: Vec<Rec> = h.extra.iter().filter(|(t, _)| *t != TLV_META).map(|(t, v)| (*t, v.0.clone())).collect();
        if let Some(m) = self.metadata_bytes(h) {
            recs.push((TLV_META, m));
        }
        recs.sort_by_key(|r| r.0);
        recs.dedup_by_key(|r| r.0);
        recs
    }

    pub fn payload_hex(&self, h: &HtlcSpec) -> String {
        match &h.raw_payload {
            Some(b) => hex::encode(&b.0),
            None => hex::encode(encode_payload(&self.payload_records(h))),
        }
    }

    /// The htlc_accepted request as lightningd would send it.
    pub fn render(&self, idx: usize) -> Value {
        let h = &self.htlcs[idx];
        let mut onion = json!({
            "payload": self.payload_hex(h),
            "type": "tlv",
            "shared_secret": "00".repeat(32),
            "next_onion": "",
        });
        if h.forward {
            onion["short_channel_id"] = json!("103x2x1");
        }
        if let Some(f) = h.forward_msat {
            onion["forward_msat"] = json!(f);
            onion["outgoing_cltv_value"] = json!(h.cltv_expiry.saturating_sub(40));
        }
        if let Some(t) = h.total_msat {
            onion["total_msat"] = json!(t);
            onion["payment_secret"] = json!("2a".repeat(32));
        }
        json!({
            "onion": onion,
            "htlc": {
                "short_channel_id": "4x5x6",
                "id": idx as u64,
                "amount_msat": h.amount_msat,
                "cltv_expiry": h.cltv_expiry,
                "cltv_expiry_relative": h.cltv_rel,
                "payment_hash": hex::encode(self.htlc_hash(h)),
            },
            "forward_to": "00".repeat(32),
        })
    }
}

// ---------------------------------------------------------------- classification

#[derive(Clone, Debug, PartialEq)]
pub enum Class {
    /// must be answered `continue`, no RPC, no state
    NonTrampoline,
    /// last hop of a route hint is the local node and that is disallowed: temporary_node_failure, not paid
    SelfHintRejected,
    /// a trampoline HTLC for payment `pay` (hash equals HTLC hash)
    Trampoline { pay: usize, amount: u64, bolt11: String },
    /// raw / exotic input: only totality is judged
    Unknown,
}

impl Scenario {
    /// Reference classifier written from C10/C13. Uses the third-party
    /// lightning-invoice parser (not code under test) for signature, hash,
    /// amount and route hints.
    pub fn classify(&self, idx: usize) -> Class {
        let h = &self.htlcs[idx];
        if h.raw_payload.is_some() {
            return Class::Unknown;
        }
        if h.forward {
            return Class::NonTrampoline;
        }
        let p = self.htlc_payment(h);
        let (inv_kind, amount_field): (InvKind, Option<Vec<u8>>) = match &h.meta {
            Meta::Absent | Meta::NotUtf8 | Meta::NotBolt11 | Meta::BadSig => return Class::NonTrampoline,
            Meta::GarbageInvoice(g) => {
                return if g.parse::<Bolt11Invoice>().is_err() { Class::NonTrampoline } else { Class::Unknown };
            }
            Meta::LenPrefixed { .. } => return Class::NonTrampoline,
            Meta::RawMeta(b) => {
                // unusable iff a strict decode fails or yields no 33001; anything else is not judged
                return match decode_stream_strict(&b.0) {
                    Ok(recs) if !recs.iter().any(|r| r.0 == TLV_INVOICE) => Class::NonTrampoline,
                    _ => Class::Unknown,
                };
            }
            Meta::Normal => (InvKind::Normal, if p.invoice_amount.is_none() { Some(tu64_min(p.tlv_amount)) } else { None }),
            Meta::FlippedRecid => (InvKind::FlippedRecid, if p.invoice_amount.is_none() { Some(tu64_min(p.tlv_amount)) } else { None }),
            Meta::NonMinimalExpiry => (InvKind::NonMinimalExpiry, if p.invoice_amount.is_none() { Some(tu64_min(p.tlv_amount)) } else { None }),
            Meta::WithAmount(a) => (InvKind::Normal, Some(a.0.clone())),
            Meta::InvoiceOnly => (InvKind::Normal, None),
            Meta::AltInvoice { amount } => (InvKind::Alt(*amount), if amount.is_none() { Some(tu64_min(p.tlv_amount)) } else { None }),
        };
        let bolt11 = build_invoice(p, inv_kind);
        let inv: Bolt11Invoice = match bolt11.parse() {
            Ok(i) => i,
            Err(_) => return Class::NonTrampoline,
        };
        if inv.check_signature().is_err() {
            return Class::NonTrampoline;
        }
        if inv.payment_hash().to_byte_array() != self.htlc_hash(h) {
            return Class::NonTrampoline;
        }
        // amount field: well-formed = at most 8 bytes
        let field: Option<u64> = amount_field.as_ref().and_then(|b| tu64_ref(b));
        let amount = match (inv.amount_milli_satoshis(), field) {
            (Some(a), Some(f)) if a != f => return Class::NonTrampoline,
            (Some(a), _) => a,
            (None, Some(f)) => f,
            (None, None) => return Class::NonTrampoline,
        };
        let ours = local_pubkey();
        let self_last = inv.route_hints().iter().any(|rh| rh.0.last().map(|hop| hop.src_node_id == ours).unwrap_or(false));
        if self_last && !self.cfg.allow_self {
            return Class::SelfHintRejected;
        }
        if h.forward_msat.is_none() {
            // C13 quantifies over requests "with or without forward_msat": without it the request
            // is not a well-formed trampoline request
            return Class::NonTrampoline;
        }
        Class::Trampoline { pay: h.pay as usize % self.payments.len(), amount, bolt11 }
    }
}

// ---------------------------------------------------------------- strategies

/// Tunable weights of the scenario generator; each property check supplies its own.
#[derive(Clone, Debug)]
pub struct Profile {
    pub max_payments: usize,
    pub max_parts: usize,
    /// probability weights (out of 100) of exotic HTLC shapes
    pub w_nontramp: u32,
    pub w_reject: u32,
    pub w_hash_mismatch: u32,
    pub w_raw_payload: u32,
    pub w_self_hint: u32,
    pub w_amountless: u32,
    pub w_under: u32,
    pub crashes: bool,
    pub write_faults: bool,
    pub read_faults: bool,
    /// failing listdatastore answers only (the stored-state read)
    pub ds_read_faults: bool,
    /// some scenarios start with payment 0 already paid by an earlier run (record in the pinned stored format)
    pub golden_records: bool,
    /// bursts of 3-4 consecutive rejected datastore writes (not for C09, whose quantifier is a single failed write)
    pub write_fault_bursts: bool,
    pub heights: bool,
    pub steps: std::ops::Range<usize>,
    pub mpp_choices: &'static [u64],
    pub extreme_cfg: bool,
    pub probe: bool,
    pub w_tick: u32,
    pub w_crash: u32,
    pub w_deliver: u32,
    pub w_answer: u32,
    pub w_flush: u32,
    /// byte strings used for raw payloads / raw metadata (C06)
    pub raw_bytes: bool,
}

impl Default for Profile {
    fn default() -> Self {
        Profile {
            max_payments: 2,
            max_parts: 3,
            w_nontramp: 5,
            w_reject: 8,
            w_hash_mismatch: 3,
            w_raw_payload: 0,
            w_self_hint: 4,
            w_amountless: 30,
            w_under: 15,
            crashes: true,
            write_faults: true,
            read_faults: false,
            ds_read_faults: false,
            golden_records: false,
            write_fault_bursts: false,
            heights: true,
            steps: 0..40,
            mpp_choices: &[0, 5, 10, 60, 60, 60, 120],
            extreme_cfg: false,
            probe: false,
            w_tick: 5,
            w_crash: 4,
            w_deliver: 16,
            w_answer: 30,
            w_flush: 8,
            raw_bytes: false,
        }
    }
}

pub fn cfg_strategy(p: &Profile) -> BoxedStrategy<Cfg> {
    let mpp = proptest::sample::select(p.mpp_choices);
    if p.extreme_cfg {
        (u32_biased(), u32_biased(), u16_biased(), u16_biased(), mpp, any::<bool>())
            .prop_map(|(base, ppm, a, b, mpp_timeout_s, allow_self)| {
                // startup guarantees policy delta > safety delta
                let (lo, hi) = if a < b { (a, b) } else { (b, a) };
                let (lo, hi) = if lo == hi { (lo.saturating_sub(1), hi.max(1)) } else { (lo, hi) };
                Cfg { base, ppm, policy_delta: hi, cltv_delta: lo, mpp_timeout_s, allow_self }
            })
            .boxed()
    } else {
        (
            prop_oneof![3 => Just(0u32), 2 => Just(1000u32), 1 => 0u32..5000],
            prop_oneof![3 => Just(5000u32), 1 => Just(0u32), 1 => Just(1u32), 1 => 0u32..100_000],
            prop_oneof![3 => Just((1008u16, 34u16)), 1 => Just((144, 34)), 1 => Just((40, 6)), 1 => Just((35, 34)), 1 => Just((2016, 100))],
            mpp,
            prop_oneof![3 => Just(true), 1 => Just(false)],
        )
            .prop_map(|(base, ppm, (policy_delta, cltv_delta), mpp_timeout_s, allow_self)| Cfg {
                base,
                ppm,
                policy_delta,
                cltv_delta,
                mpp_timeout_s,
                allow_self,
            })
            .boxed()
    }
}

fn amount_strategy() -> impl Strategy<Value = u64> {
    prop_oneof![
        4 => Just(1_000_000u64),
        2 => 1u64..=2_000_000,
        2 => proptest::sample::select(&[1u64, 199, 200, 201, 999_999, 1_000_001, 0xffff_ffff, 0x1_0000_0000, 50_000_000_000, 1_000_000_000_000_000, 400_000_000_000_000_000][..]),
        1 => 1u64..=400_000_000_000_000_000,
    ]
}

pub fn payment_strategy(p: &Profile, idx: usize) -> impl Strategy<Value = PaymentSpec> {
    let w_amountless = p.w_amountless;
    let w_self = p.w_self_hint;
    (
        amount_strategy(),
        amount_strategy(),
        0u32..100,
        0u32..100,
        prop_oneof![Just(Hints::None), Just(Hints::Other), Just(Hints::OursNotLast)],
        prop_oneof![Just(Hints::OursLast), Just(Hints::OtherAndOursLast)],
        any::<bool>(),
        prop_oneof![3 => Just(true), 2 => Just(false)],
        prop_oneof![4 => Just(1u8), 2 => Just(2u8), 1 => Just(3u8), 1 => Just(0u8)],
    )
        .prop_map(move |(a, t, r1, r2, h_plain, h_self, explicit_payee, recipient_ok, drain_parts)| PaymentSpec {
            preimage_hi: 0,
            // sha256 of 32 x 0x04, 0x22 and 0xe3 share their first byte (0x9f): hashes that collide in a
            // truncated key/prefix show up as cross-talk between payments
            preimage: match (idx, t % 3 == 0) {
                (0, false) => 0x11,
                (0, true) => 0x04,
                (1, _) => 0x22,
                (2, false) => 0x33,
                (2, true) => 0xe3,
                (i, _) => 0x40 + i as u8,
            },
            invoice_amount: if r1 < w_amountless { None } else { Some(a) },
            tlv_amount: t,
            hints: if r2 < w_self { h_self } else { h_plain },
            explicit_payee,
            recipient_ok,
            drain_parts,
        })
}

/// fee according to the reference formula (saturating at u64::MAX)
pub fn needed_total(cfg: &Cfg, amount: u64) -> u64 {
    let r = amount as u128 + cfg.base as u128 + (amount as u128 * cfg.ppm as u128) / 1_000_000;
    r.min(u64::MAX as u128) as u64
}

#[derive(Clone, Debug)]
struct SetPlan {
    parts: usize,
    /// 0 exact, 1 over by a little, 2 under by one, 3 far under, 4 far over
    funding: u8,
    split: Vec<u16>,
    declared: u8,
    expiry_rel: Vec<i64>,
    kinds: Vec<u32>,
    kind_args: Vec<u64>,
    raw: Vec<Vec<u8>>,
    garbage: Vec<String>,
}

fn set_plan(p: &Profile) -> impl Strategy<Value = SetPlan> {
    let w_under = p.w_under;
    (
        1usize..=p.max_parts,
        0u32..100,
        proptest::collection::vec(any::<u16>(), p.max_parts),
        0u8..10,
        proptest::collection::vec(prop_oneof![6 => Just(0i64), 1 => Just(1i64), 1 => Just(-1i64), 1 => Just(-5000i64), 1 => 0i64..2000], p.max_parts),
        proptest::collection::vec(0u32..100, p.max_parts),
        proptest::collection::vec(any::<u64>(), p.max_parts),
        proptest::collection::vec(raw_bytes_strategy(), p.max_parts),
        proptest::collection::vec(garbage_invoice_strategy(), p.max_parts),
    )
        .prop_map(move |(parts, f, split, declared, expiry_rel, kinds, kind_args, raw, garbage)| SetPlan {
            parts,
            funding: if f < w_under { 2 + (f % 2) as u8 } else if f < w_under + 15 { 1 } else if f < w_under + 20 { 4 } else { 0 },
            split,
            declared,
            expiry_rel,
            kinds,
            kind_args,
            raw,
            garbage,
        })
}

/// Malformed / arbitrary TLV byte strings: truncated varints at every width,
/// oversized lengths, dangling bytes, plain noise.
/// Strings that are valid UTF-8 with multi-byte characters at varying offsets and no invoice
pub fn garbage_invoice_strategy() -> impl Strategy<Value = String> {
    (0usize..80, proptest::collection::vec(proptest::sample::select(&['a', 'l', 'n', '1', 'é', 'ß', '✓', '日', '🎉', ' '][..]), 0..60), any::<bool>()).prop_map(|(pad, tail, prefix)| {
        let mut s = String::new();
        if prefix {
            s.push_str("lnbc1");
        }
        for _ in 0..pad {
            s.push('q');
        }
        s.extend(tail);
        s
    })
}

pub fn raw_bytes_strategy() -> impl Strategy<Value = Vec<u8>> {
    let sym = prop_oneof![5 => proptest::sample::select(&[0u8, 1, 2, 4, 8, 16, 0x10, 0xfc, 0xfd, 0xfe, 0xff, 0x80][..]), 2 => any::<u8>()];
    prop_oneof![
        4 => proptest::collection::vec(sym, 0..16),
        2 => proptest::collection::vec(any::<u8>(), 0..80),
        // length prefix + record header with a length that overruns
        2 => (0u8..4, any::<u8>(), proptest::collection::vec(any::<u8>(), 0..6)).prop_map(|(w, t, v)| {
            let mut b = vec![];
            let body_len = 2 + v.len() as u64;
            put_bigsize(&mut b, body_len);
            b.push(t);
            match w {
                0 => b.push(v.len() as u8 + 3),
                1 => b.extend_from_slice(&[0xfd, 0xff]),
                2 => b.extend_from_slice(&[0xfe, 0, 1]),
                _ => b.extend_from_slice(&[0xff, 0, 0, 0, 0, 0]),
            }
            b.extend_from_slice(&v);
            b
        }),
    ]
}

fn build_htlcs(cfg: &Cfg, payments: &[PaymentSpec], plans: &[SetPlan], prof: &Profile, start_height: u32) -> Vec<HtlcSpec> {
    let mut out = vec![];
    for (pi, (pay, plan)) in payments.iter().zip(plans.iter()).enumerate() {
        let amount = pay.deliver_amount();
        let need = needed_total(cfg, amount).min(500_000_000_000_000_000);
        let send_total = match plan.funding {
            0 => need,
            1 => need.saturating_add(1 + (plan.split[0] as u64 % 1000)),
            2 => need.saturating_sub(1),
            3 => need / 2,
            _ => need.saturating_mul(2).min(500_000_000_000_000_000),
        };
        // split send_total into `parts` amounts
        let n = plan.parts.max(1);
        let mut amounts = vec![];
        let mut rest = send_total;
        for i in 0..n {
            let a = if i + 1 == n {
                rest
            } else {
                let frac = (plan.split[i] as u128 + 1) * rest as u128 / 65537 / (n - i) as u128 * 2;
                (frac as u64).min(rest)
            };
            amounts.push(a);
            rest -= a;
        }
        let declared_total = match plan.declared {
            0 => None,
            1 => Some(send_total.saturating_sub(1)),
            2 => Some(send_total.saturating_add(1)),
            3 => Some(amount.saturating_sub(1)),
            _ => Some(send_total),
        };
        for i in 0..n {
            let rel_base = cfg.policy_delta as i64 + plan.expiry_rel[i].max(-1 - cfg.policy_delta as i64);
            let k = plan.kinds[i];
            let arg = plan.kind_args[i];
            let mut h = HtlcSpec {
                pay: pi as u8,
                hash_of: None,
                amount_msat: amounts[i],
                total_msat: if n == 1 && declared_total == Some(send_total) && arg % 3 == 0 { None } else { declared_total },
                forward_msat: Some(amounts[i]),
                cltv_expiry: (start_height as i64 + rel_base).clamp(0, u32::MAX as i64) as u32,
                cltv_rel: rel_base,
                forward: false,
                meta: Meta::Normal,
                extra: vec![(2, Hx(tu64_min(amounts[i]))), (4, Hx(tu64_min(start_height as u64 + 100)))],
                raw_payload: None,
            };
            if h.total_msat.is_none() && n > 1 {
                h.total_msat = declared_total;
            }
            // the onion's forward amount is sender-controlled and need not equal what the HTLC carries
            match if h.forward_msat.is_none() { 99 } else { arg % 13 } {
                0 => h.forward_msat = Some(amounts[i].saturating_mul(2).saturating_add(1000)),
                1 => h.forward_msat = Some(amounts[i] / 2),
                2 => h.forward_msat = Some(amounts[i].saturating_add(send_total)),
                _ => {}
            }
            let mut w = 0;
            let mut hit = |weight: u32| {
                let r = k >= w && k < w + weight;
                w += weight;
                r
            };
            if hit(prof.w_nontramp) {
                match arg % 6 {
                    5 => {
                        h.forward_msat = None;
                        if arg % 12 == 5 {
                            h.total_msat = None;
                        }
                    }
                    0 => h.forward = true,
                    1 => h.meta = Meta::Absent,
                    2 => h.meta = if arg % 12 < 6 { Meta::NotBolt11 } else { Meta::GarbageInvoice(plan.garbage[i].clone()) },
                    3 => h.meta = Meta::BadSig,
                    _ => h.meta = Meta::LenPrefixed { with_invoice: arg % 2 == 0 },
                }
            } else if hit(prof.w_reject) {
                match arg % 4 {
                    0 => h.meta = Meta::AltInvoice { amount: pay.invoice_amount.map(|a| a.saturating_add(arg % 7)) },
                    1 => h.cltv_rel = cfg.policy_delta as i64 - 1 - (arg % 3) as i64,
                    2 => h.total_msat = Some(amount.saturating_sub(1 + arg % 3)),
                    _ => {
                        if pay.invoice_amount.is_none() {
                            h.meta = Meta::WithAmount(Hx(tu64_min(pay.tlv_amount.saturating_add(1 + arg % 5))))
                        } else if arg % 8 < 4 {
                            h.meta = Meta::AltInvoice { amount: None }
                        } else {
                            // fixed-amount invoice with a well-formed but disagreeing amount field: not a trampoline request
                            let a = pay.invoice_amount.unwrap_or(1);
                            h.meta = Meta::WithAmount(Hx(tu64_min(if arg % 2 == 0 { a / 2 } else { a.saturating_add(1) })))
                        }
                    }
                }
            } else if hit(prof.w_hash_mismatch) && payments.len() > 1 {
                h.hash_of = Some(((pi + 1) % payments.len()) as u8);
            } else if hit(prof.w_raw_payload) {
                if arg % 2 == 0 {
                    h.raw_payload = Some(Hx(plan.raw[i].clone()));
                } else {
                    h.meta = Meta::RawMeta(Hx(plan.raw[i].clone()));
                }
            }
            out.push(h);
        }
    }
    out
}

pub fn step_strategy(p: &Profile) -> BoxedStrategy<Step> {
    let crash_w = if p.crashes { p.w_crash } else { 0 };
    let (w_deliver, w_answer, w_flush, w_tick) = (p.w_deliver, p.w_answer, p.w_flush, p.w_tick);
    let height_w = if p.heights { 3 } else { 0 };
    prop_oneof![
        w_deliver => any::<u16>().prop_map(Step::Deliver),
        w_answer => any::<u16>().prop_map(Step::Answer),
        w_flush => Just(Step::Flush),
        8 => any::<u16>().prop_map(Step::PayPart),
        8 => (any::<u16>(), prop_oneof![
                4 => Just(PayOutcome::Complete),
                3 => proptest::sample::select(&[203i32, 205, 206, 207, 210][..]).prop_map(PayOutcome::Error),
                1 => Just(PayOutcome::Garbled),
                2 => any::<bool>().prop_map(|b| PayOutcome::Pending { with_preimage: b }),
                2 => any::<bool>().prop_map(|b| PayOutcome::Failed { warning: b }),
            ]).prop_map(|(i, o)| Step::PayFinish(i, o)),
        12 => (any::<u16>(), prop_oneof![
                3 => Just(PartOutcome::Complete),
                3 => proptest::sample::select(&[202i32, 203, 204, 209][..]).prop_map(PartOutcome::Fail),
            ]).prop_map(|(i, o)| Step::Part(i, o)),
        w_tick => prop_oneof![3 => Just(1u8), 2 => 1u8..=13, 1 => Just(13u8), 1 => Just(25u8)].prop_map(Step::Tick),
        height_w => (0u32..3000).prop_map(Step::Block),
        height_w => (0u32..3000).prop_map(Step::Height),
        crash_w => (prop_oneof![6 => Just(0u8), 4 => 1u8..=13, 2 => Just(30u8), 1 => Just(255u8), 1 => Just(254u8)], any::<bool>(), any::<bool>())
            .prop_map(|(down, lose_last, reverse)| Step::Crash { down, lose_last, reverse }),
    ]
    .boxed()
}

pub fn scenario_strategy(prof: Profile) -> BoxedStrategy<Scenario> {
    let p2 = prof.clone();
    let npay = 1usize..=prof.max_payments;
    (cfg_strategy(&prof), npay, prop_oneof![3 => Just(1000u32), 1 => 0u32..5, 1 => 100_000u32..900_000])
        .prop_flat_map(move |(cfg, npay, start_height)| {
            let prof = p2.clone();
            let pays: Vec<BoxedStrategy<PaymentSpec>> = (0..npay).map(|i| payment_strategy(&prof, i).boxed()).collect();
            let plans = proptest::collection::vec(set_plan(&prof), npay);
            let steps = proptest::collection::vec(step_strategy(&prof), prof.steps.clone());
            let wf = if prof.write_faults && prof.write_fault_bursts {
                prop_oneof![
                    2 => proptest::collection::vec((0u8..8, prop_oneof![Just(FaultKind::Reject), Just(FaultKind::AppliedButError)]), 0..=1),
                    1 => (0u8..6, 3u8..=4).prop_map(|(k, n)| (0..n).map(|i| (k + i, FaultKind::Reject)).collect::<Vec<_>>()),
                ]
                .boxed()
            } else if prof.write_faults {
                proptest::collection::vec((0u8..8, prop_oneof![Just(FaultKind::Reject), Just(FaultKind::AppliedButError)]), 0..=1).boxed()
            } else {
                Just(vec![]).boxed()
            };
            let rf = if prof.read_faults {
                // single read faults, pairs, and bursts of 3-4 consecutive failing reads
                prop_oneof![
                    4 => proptest::collection::vec((0u8..10, proptest::sample::select(&[-1i32, 200, 400, -32602][..])), 0..=2),
                    2 => (0u8..10, 3u8..=4, proptest::sample::select(&[-1i32, 200, 400, -32602][..])).prop_map(|(k, n, c)| (0..n).map(|i| (k + i, c)).collect::<Vec<_>>()),
                ]
                .boxed()
            } else {
                Just(vec![]).boxed()
            };
            let dsrf = if prof.ds_read_faults {
                prop_oneof![
                    1 => Just(vec![]),
                    3 => proptest::collection::vec((0u8..5, proptest::sample::select(&[-1i32, 200, 400, -32602][..])), 1..=2),
                ]
                .boxed()
            } else {
                Just(vec![]).boxed()
            };
            let golden = if prof.golden_records { prop_oneof![2 => Just(vec![]), 1 => Just(vec![0u8])].boxed() } else { Just(vec![]).boxed() };
            let pay_opts = prop_oneof![3 => Just(None), 2 => (proptest::sample::select(&[0u16, 1, 5, 60, 65535][..]), any::<bool>()).prop_map(Some)];
            let rf = (rf, dsrf, golden, pay_opts);
            let probe = prof.probe;
            let holds = prop_oneof![3 => Just(vec![]), 2 => (0u16..28, 4u16..45).prop_map(|h| vec![h])];
            (Just(cfg), pays, plans, steps, wf, rf, any::<u64>(), Just(start_height), proptest::collection::vec(any::<u16>(), 12), holds).prop_map(
                move |(cfg, payments, plans, steps, write_faults, (read_faults, ds_read_faults, initial_succeeded, pay_opts), tokio_seed, start_height, shuffle, hold)| {
                    // Known finding of C12 excluded by construction: when amount*ppm exceeds u64 the
                    // plugin's fee test is conservatively false; such amounts (> u64::MAX/ppm msat) are clamped.
                    let mut payments = payments;
                    let cap = (u64::MAX / (cfg.ppm.max(1) as u64)) / 2;
                    for p in payments.iter_mut() {
                        if let Some(a) = p.invoice_amount.as_mut() {
                            *a = (*a).min(cap).max(1);
                        }
                        p.tlv_amount = p.tlv_amount.min(cap).max(1);
                    }
                    let mut htlcs = build_htlcs(&cfg, &payments, &plans, &prof, start_height);
                    // interleave the HTLCs of different payments
                    let n = htlcs.len();
                    for (i, s) in shuffle.iter().enumerate() {
                        if n > 1 && i < n {
                            let j = pick(*s, n);
                            htlcs.swap(i, j);
                        }
                    }
                    Scenario { cfg, payments, htlcs, steps, write_faults, read_faults, start_height, tokio_seed, c16_profile: false, probe, direct: vec![], initial_parts: vec![], manual_getinfo: false, crash_at: vec![], freeze: None, hold, freeze_polls: false, initial_pending: vec![], ds_read_faults, initial_succeeded, cfg_later: None, notif_stall: false, pay_opts, fail_store: None }
                },
            )
        })
        .boxed()
}
