//! Shared search runner: parallel proptest workers, shrinking, replay files,
//! known-findings matching and evidence files.
use proptest::strategy::Strategy;
use proptest::test_runner::{Config, RngAlgorithm, TestCaseError, TestError, TestRng, TestRunner};
use serde::{de::DeserializeOwned, Deserialize, Serialize};
use serde_json::{json, Value};
use std::collections::{BTreeMap, HashMap, HashSet};
use std::path::PathBuf;
use std::sync::atomic::{AtomicBool, Ordering};
use std::sync::Mutex;
use std::time::Instant;

pub fn root() -> PathBuf {
    PathBuf::from(std::env::var("VERIF_ROOT").unwrap_or_else(|_| "/verif".into()))
}

#[derive(Clone, Copy, PartialEq, Eq, Debug)]
pub enum Tier {
    Quick,
    Thorough,
}
impl Tier {
    pub fn name(&self) -> &'static str {
        match self {
            Tier::Quick => "quick",
            Tier::Thorough => "thorough",
        }
    }
    pub fn pick<T>(&self, q: T, t: T) -> T {
        match self {
            Tier::Quick => q,
            Tier::Thorough => t,
        }
    }
}

#[derive(Clone, Debug, Serialize, Deserialize)]
pub struct Violation {
    pub prop: String,
    /// short machine-readable kind, e.g. "fail_while_live"
    pub kind: String,
    pub detail: String,
    /// structural signature used to match known findings
    pub signature: Value,
}

impl Violation {
    pub fn new(prop: &str, kind: &str, detail: String) -> Self {
        Violation {
            prop: prop.into(),
            kind: kind.into(),
            detail,
            signature: json!({ "kind": kind }),
        }
    }
    pub fn with_sig(mut self, sig: Value) -> Self {
        self.signature = sig;
        self
    }
}

#[derive(Default, Clone, Debug)]
pub struct CaseReport {
    pub violations: Vec<Violation>,
    pub nontrivial: bool,
    pub fingerprint: u64,
    pub classes: Vec<String>,
    pub inconclusive: bool,
    /// compact human-readable rendering of the case (trace); only the first
    /// few per worker are kept
    pub sample: Option<Value>,
}

#[derive(Deserialize, Clone, Debug)]
pub struct KnownEntry {
    pub status: String,
    pub property: String,
    #[serde(default)]
    pub signature: Value,
    #[serde(default)]
    pub commit: String,
    pub what: String,
}

pub struct Known {
    entries: Vec<KnownEntry>,
}
impl Known {
    pub fn load() -> Self {
        let p = root().join("known_findings.json");
        let entries = match std::fs::read_to_string(&p) {
            Ok(s) => serde_json::from_str::<Vec<KnownEntry>>(&s).unwrap_or_else(|e| {
                eprintln!("cannot parse {}: {e}", p.display());
                std::process::exit(2)
            }),
            Err(_) => vec![],
        };
        Known { entries }
    }
    /// Only entries with status "known" suppress; the signature must be equal.
    pub fn matches(&self, v: &Violation) -> Option<&KnownEntry> {
        self.entries
            .iter()
            .find(|e| e.status == "known" && e.property == v.prop && e.signature == v.signature)
    }
}

#[derive(Default)]
pub struct Agg {
    pub evaluations: u64,
    pub nontrivial: u64,
    pub fingerprints: HashSet<u64>,
    pub classes: BTreeMap<String, u64>,
    pub samples: Vec<Value>,
    pub known_seen: BTreeMap<String, u64>,
    pub other_trips: BTreeMap<String, u64>,
    pub inconclusive: u64,
}
impl Agg {
    pub fn record(&mut self, prop: &str, rep: &CaseReport) {
        self.evaluations += 1;
        if rep.inconclusive {
            self.inconclusive += 1;
        }
        if rep.nontrivial {
            self.nontrivial += 1;
            self.fingerprints.insert(rep.fingerprint);
            if self.samples.len() < 3 {
                if let Some(s) = &rep.sample {
                    self.samples.push(s.clone());
                }
            }
        }
        for c in &rep.classes {
            *self.classes.entry(c.clone()).or_default() += 1;
        }
        for v in &rep.violations {
            if v.prop != prop {
                *self
                    .other_trips
                    .entry(format!("{}:{}", v.prop, v.kind))
                    .or_default() += 1;
            }
        }
    }
    pub fn merge(&mut self, o: Agg) {
        self.evaluations += o.evaluations;
        self.nontrivial += o.nontrivial;
        self.fingerprints.extend(o.fingerprints);
        for (k, v) in o.classes {
            *self.classes.entry(k).or_default() += v;
        }
        for s in o.samples {
            if self.samples.len() < 5 {
                self.samples.push(s);
            }
        }
        for (k, v) in o.known_seen {
            *self.known_seen.entry(k).or_default() += v;
        }
        for (k, v) in o.other_trips {
            *self.other_trips.entry(k).or_default() += v;
        }
        self.inconclusive += o.inconclusive;
    }
}

pub struct Failure {
    pub replay_path: PathBuf,
    pub violations: Vec<Violation>,
}

/// One check = one Session; several phases accumulate into one evidence file.
pub struct Session {
    pub prop: &'static str,
    pub tier: Tier,
    pub seed: u64,
    pub level: &'static str,
    pub rule: String,
    pub assumptions: Vec<String>,
    pub known: Known,
    pub total: Agg,
    pub phases: Vec<Value>,
    pub failures: Vec<Failure>,
    pub extra: BTreeMap<String, Value>,
    pub exhaustive: bool,
    /// E2E cases whose real-time wait expired without a verdict: exit 2 (never a violation)
    pub e2e_inconclusive: u64,
    pub shrink_iters: u32,
    start: Instant,
}

pub fn workers() -> usize {
    std::env::var("VERIF_WORKERS")
        .ok()
        .and_then(|s| s.parse().ok())
        .unwrap_or(16)
}

pub fn seed_from_env() -> u64 {
    std::env::var("VERIF_SEED")
        .ok()
        .and_then(|s| s.trim().parse::<i128>().ok())
        .map(|v| v as u64)
        .unwrap_or(20260927)
}

fn rng_for(seed: u64, phase: &str, worker: usize) -> TestRng {
    // 32-byte ChaCha seed derived from (seed, phase, worker) with a simple
    // FNV/splitmix expansion: deterministic, no external state.
    let mut h: u64 = 0xcbf29ce484222325;
    for b in phase.bytes() {
        h ^= b as u64;
        h = h.wrapping_mul(0x100000001b3);
    }
    let mut x = seed ^ h.rotate_left(17) ^ ((worker as u64) << 48) ^ (worker as u64);
    let mut out = [0u8; 32];
    for chunk in out.chunks_mut(8) {
        x = x.wrapping_add(0x9E3779B97F4A7C15);
        let mut z = x;
        z = (z ^ (z >> 30)).wrapping_mul(0xBF58476D1CE4E5B9);
        z = (z ^ (z >> 27)).wrapping_mul(0x94D049BB133111EB);
        z ^= z >> 31;
        chunk.copy_from_slice(&z.to_le_bytes());
    }
    TestRng::from_seed(RngAlgorithm::ChaCha, &out)
}

/// Crash isolation: when VERIF_LAST_CASE_DIR is set, every worker writes the case it is about to evaluate
/// to <dir>/<phase>-w<idx>.json (as a replay file). If the code under test takes the whole process down
/// (allocation failure, abort, stack overflow), the wrapper script finds the culprit among these files.
pub fn note_case<V: Serialize>(prop: &str, engine: &str, phase: &str, worker: usize, case: &V) {
    if let Ok(dir) = std::env::var("VERIF_LAST_CASE_DIR") {
        let body = json!({"property": prop, "engine": engine, "case": case, "violations": [{"prop": prop, "kind": "process_aborted", "detail": "the process was killed (abort / allocation failure / stack overflow) while this case was evaluated", "signature": {"kind": "process_aborted"}}]});
        let _ = std::fs::write(format!("{dir}/{}-w{worker}.json", phase.replace('/', "_")), body.to_string());
    }
}

pub fn fp_of<T: std::hash::Hash>(t: &T) -> u64 {
    use std::hash::Hasher;
    let mut h = std::collections::hash_map::DefaultHasher::new();
    t.hash(&mut h);
    h.finish()
}

impl Session {
    pub fn new(prop: &'static str, tier: Tier, seed: u64, level: &'static str, rule: &str) -> Self {
        Session {
            prop,
            tier,
            seed,
            level,
            rule: rule.into(),
            assumptions: vec![],
            known: Known::load(),
            total: Agg::default(),
            phases: vec![],
            failures: vec![],
            extra: BTreeMap::new(),
            exhaustive: false,
            e2e_inconclusive: 0,
            shrink_iters: 600,
            start: Instant::now(),
        }
    }

    pub fn assume(&mut self, s: &str) {
        self.assumptions.push(s.into());
    }

    /// Classify the violations of one case: returns the ones that are new
    /// (own property, not matching a known finding); records known ones.
    fn triage(&self, rep: &CaseReport, agg: &mut Agg, count: bool) -> Vec<Violation> {
        let mut new = vec![];
        for v in rep.violations.iter().filter(|v| v.prop == self.prop) {
            if let Some(k) = self.known.matches(v) {
                if count {
                    *agg.known_seen.entry(k.what.clone()).or_default() += 1;
                }
            } else {
                new.push(v.clone());
            }
        }
        new
    }

    fn save_replay<V: Serialize>(&self, engine: &str, case: &V, viol: &[Violation]) -> PathBuf {
        let dir = root().join("replays/found");
        let _ = std::fs::create_dir_all(&dir);
        let body = json!({
            "property": self.prop,
            "engine": engine,
            "case": case,
            "violations": viol,
        });
        let text = serde_json::to_string_pretty(&body).unwrap();
        let path = dir.join(format!("{}-{:016x}.json", self.prop, fp_of(&text)));
        std::fs::write(&path, text).unwrap();
        path
    }

    /// Generated search: `workers` threads, each its own proptest runner.
    pub fn search<S, F>(&mut self, phase: &str, engine: &str, cases_per_worker: u32, strat: impl Fn() -> S + Sync, case_fn: F)
    where
        S: Strategy,
        S::Value: Serialize + Clone + std::fmt::Debug + Send,
        F: Fn(&S::Value) -> CaseReport + Sync,
    {
        let t0 = Instant::now();
        let nworkers = workers();
        let stop = AtomicBool::new(false);
        let results: Mutex<Vec<(usize, Agg, Option<(S::Value, Vec<Violation>)>)>> = Mutex::new(vec![]);
        let this = &*self;
        std::thread::scope(|sc| {
            for w in 0..nworkers {
                let stop = &stop;
                let results = &results;
                let strat = &strat;
                let case_fn = &case_fn;
                sc.spawn(move || {
                    let cfg = Config {
                        cases: cases_per_worker,
                        failure_persistence: None,
                        max_shrink_iters: this.shrink_iters,
                        max_global_rejects: 1_000_000,
                        ..Config::default()
                    };
                    let mut runner = TestRunner::new_with_rng(cfg, rng_for(this.seed, phase, w));
                    let agg = std::cell::RefCell::new(Agg::default());
                    let failed = std::cell::Cell::new(false);
                    // violations seen per failing value: an engine whose thread schedule is not part of the
                    // case (PAR) may not fail again when the minimal value is re-run afterwards
                    let seen_fail: std::cell::RefCell<HashMap<String, Vec<Violation>>> = std::cell::RefCell::new(HashMap::new());
                    let res = runner.run(&strat(), |v| {
                        if !failed.get() && stop.load(Ordering::Relaxed) {
                            return Ok(());
                        }
                        note_case(this.prop, engine, phase, w, &v);
                        let rep = case_fn(&v);
                        let counting = !failed.get();
                        let mut a = agg.borrow_mut();
                        if counting {
                            a.record(this.prop, &rep);
                        }
                        let new = this.triage(&rep, &mut a, counting);
                        if new.is_empty() {
                            Ok(())
                        } else {
                            failed.set(true);
                            stop.store(true, Ordering::Relaxed);
                            seen_fail.borrow_mut().insert(serde_json::to_string(&v).unwrap_or_default(), new.clone());
                            Err(TestCaseError::fail(format!("{}: {}", new[0].kind, new[0].detail)))
                        }
                    });
                    let fail = match res {
                        Ok(()) => None,
                        Err(TestError::Fail(_, v)) => {
                            let rep = case_fn(&v);
                            let mut dummy = Agg::default();
                            let mut new = this.triage(&rep, &mut dummy, false);
                            if new.is_empty() {
                                if let Some(old) = seen_fail.borrow().get(&serde_json::to_string(&v).unwrap_or_default()) {
                                    new = old.clone();
                                }
                            }
                            Some((v, new))
                        }
                        Err(TestError::Abort(r)) => {
                            eprintln!("proptest abort in {phase}: {r}");
                            None
                        }
                    };
                    results.lock().unwrap().push((w, agg.into_inner(), fail));
                });
            }
        });
        let mut results = results.into_inner().unwrap();
        results.sort_by_key(|r| r.0);
        let mut agg = Agg::default();
        let mut first_fail = None;
        for (_, a, f) in results {
            agg.merge(a);
            if first_fail.is_none() {
                if let Some(f) = f {
                    if !f.1.is_empty() {
                        first_fail = Some(f);
                    }
                }
            }
        }
        if let Some((v, viol)) = first_fail {
            let path = self.save_replay(engine, &v, &viol);
            self.failures.push(Failure { replay_path: path, violations: viol });
        }
        self.finish_phase(phase, agg, t0);
    }

    /// Deterministic enumeration (exhaustive small scopes, replay tiers):
    /// cases come from an iterator, split round-robin over the workers.
    pub fn enumerate<V, F>(&mut self, phase: &str, engine: &str, cases: Vec<V>, case_fn: F)
    where
        V: Serialize + Clone + Send + Sync,
        F: Fn(&V) -> CaseReport + Sync,
    {
        let t0 = Instant::now();
        let nworkers = workers().min(cases.len().max(1));
        let results: Mutex<Vec<(usize, Agg, Option<(usize, Vec<Violation>)>)>> = Mutex::new(vec![]);
        let this = &*self;
        let cases_ref = &cases;
        std::thread::scope(|sc| {
            for w in 0..nworkers {
                let results = &results;
                let case_fn = &case_fn;
                sc.spawn(move || {
                    let mut agg = Agg::default();
                    let mut fail = None;
                    let mut i = w;
                    while i < cases_ref.len() {
                        note_case(this.prop, engine, phase, w, &cases_ref[i]);
                        let rep = case_fn(&cases_ref[i]);
                        agg.record(this.prop, &rep);
                        let new = this.triage(&rep, &mut agg, true);
                        if !new.is_empty() && fail.is_none() {
                            fail = Some((i, new));
                        }
                        i += nworkers;
                    }
                    results.lock().unwrap().push((w, agg, fail));
                });
            }
        });
        let mut agg = Agg::default();
        let mut first: Option<(usize, Vec<Violation>)> = None;
        for (_, a, f) in results.into_inner().unwrap() {
            agg.merge(a);
            if let Some(f) = f {
                if first.as_ref().map(|x| f.0 < x.0).unwrap_or(true) {
                    first = Some(f);
                }
            }
        }
        if let Some((i, viol)) = first {
            let path = self.save_replay(engine, &cases[i], &viol);
            self.failures.push(Failure { replay_path: path, violations: viol });
        }
        self.finish_phase(phase, agg, t0);
    }

    /// Replay tier: every file in replays/regress whose name starts with the
    /// property id and whose engine matches is re-executed.
    pub fn regress<V, F>(&mut self, engine: &str, case_fn: F)
    where
        V: DeserializeOwned + Serialize + Clone,
        F: Fn(&V) -> CaseReport,
    {
        let t0 = Instant::now();
        let dir = root().join("replays/regress");
        let mut agg = Agg::default();
        let mut files: Vec<_> = std::fs::read_dir(&dir)
            .map(|d| d.filter_map(|e| e.ok()).map(|e| e.path()).collect())
            .unwrap_or_default();
        files.sort();
        for f in files {
            let name = f.file_name().unwrap().to_string_lossy().to_string();
            if !name.starts_with(self.prop) || !name.ends_with(".json") {
                continue;
            }
            let text = std::fs::read_to_string(&f).unwrap();
            let v: Value = match serde_json::from_str(&text) {
                Ok(v) => v,
                Err(e) => {
                    eprintln!("bad replay file {}: {e}", f.display());
                    std::process::exit(2);
                }
            };
            if v["engine"] != engine {
                continue;
            }
            let case: V = match serde_json::from_value(v["case"].clone()) {
                Ok(c) => c,
                Err(e) => {
                    eprintln!("bad replay case {}: {e}", f.display());
                    std::process::exit(2);
                }
            };
            let rep = case_fn(&case);
            agg.record(self.prop, &rep);
            let new = self.triage(&rep, &mut agg, true);
            if !new.is_empty() {
                self.failures.push(Failure { replay_path: f.clone(), violations: new });
            }
        }
        let phase = format!("regress:{engine}");
        self.finish_phase(&phase, agg, t0);
    }

    fn finish_phase(&mut self, phase: &str, agg: Agg, t0: Instant) {
        self.phases.push(json!({
            "phase": phase,
            "evaluations": agg.evaluations,
            "nontrivial": agg.nontrivial,
            "distinct_nontrivial": agg.fingerprints.len(),
            "inconclusive": agg.inconclusive,
            "wall_s": t0.elapsed().as_secs_f64(),
        }));
        let mut a = agg;
        // prefix class labels with the phase so distributions stay readable
        let classes = std::mem::take(&mut a.classes);
        for (k, v) in classes {
            a.classes.insert(format!("{phase}/{k}"), v);
        }
        // fingerprints are salted by phase so equal hashes from different
        // phases are not merged
        let fps = std::mem::take(&mut a.fingerprints);
        for f in fps {
            a.fingerprints.insert(f ^ fp_of(&phase));
        }
        self.total.merge(a);
    }

    /// Writes the evidence file, prints the result lines, returns exit code.
    pub fn finish(self) -> i32 {
        let t = &self.total;
        let mut coverage = json!({
            "evaluations": t.evaluations,
            "distinct_nontrivial": t.fingerprints.len(),
            "nontrivial_total": t.nontrivial,
            "rule": self.rule,
            "samples": t.samples,
            "classes": t.classes,
            "phases": self.phases,
            "inconclusive_cases": t.inconclusive,
            "known_findings_seen": t.known_seen,
            "other_monitor_trips": t.other_trips,
            "exhaustive": self.exhaustive,
        });
        for (k, v) in &self.extra {
            coverage[k] = v.clone();
        }
        let ev = json!({
            "property_id": self.prop,
            "tier": self.tier.name(),
            "seed": (self.seed & 0x7fff_ffff_ffff_ffff) as i64,
            "level": self.level,
            "coverage": coverage,
            "assumptions": self.assumptions,
            "wall_s": self.start.elapsed().as_secs_f64(),
            "violations": self.failures.len(),
        });
        let dir = root().join("evidence");
        let _ = std::fs::create_dir_all(&dir);
        std::fs::write(dir.join(format!("{}.json", self.prop)), serde_json::to_string_pretty(&ev).unwrap()).unwrap();
        for (what, n) in &t.known_seen {
            println!("KNOWN-FINDING: property={} {} (seen {} times)", self.prop, what, n);
        }
        println!(
            "{} {}: evaluations={} distinct_nontrivial={} violations={} wall={:.1}s",
            self.prop,
            self.tier.name(),
            t.evaluations,
            t.fingerprints.len(),
            self.failures.len(),
            self.start.elapsed().as_secs_f64()
        );
        if self.failures.is_empty() {
            if self.e2e_inconclusive > 0 {
                println!("INCONCLUSIVE property={} {} end-to-end cases ended without a verdict (real-time wait expired without a panic); see evidence", self.prop, self.e2e_inconclusive);
                return 2;
            }
            0
        } else {
            for f in &self.failures {
                for v in &f.violations {
                    println!("  violated: {} — {}", v.kind, v.detail);
                }
                println!("VIOLATION property={} replay={}", self.prop, f.replay_path.display());
            }
            1
        }
    }
}
