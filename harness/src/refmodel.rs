//! Independent reference models written from the BOLT texts and the property
//! statements (never calling the code under test).

/// Exact integer predicate of C12 in 128-bit arithmetic; false whenever the
/// right-hand side does not fit 64 bits.
pub fn fee_sufficient_ref(base: u32, ppm: u32, total: u64, amount: u64) -> bool {
    let rhs: u128 = amount as u128 + base as u128 + (amount as u128 * ppm as u128) / 1_000_000u128;
    if rhs > u64::MAX as u128 {
        return false;
    }
    total as u128 >= rhs
}

pub fn fee_failure_ref(base: u32, ppm: u32, delta: u16) -> Vec<u8> {
    let mut v = vec![0x20, 0x1a];
    v.extend_from_slice(&base.to_be_bytes());
    v.extend_from_slice(&ppm.to_be_bytes());
    v.extend_from_slice(&delta.to_be_bytes());
    v
}

pub fn put_bigsize(out: &mut Vec<u8>, v: u64) {
    if v < 0xfd {
        out.push(v as u8);
    } else if v <= 0xffff {
        out.push(0xfd);
        out.extend_from_slice(&(v as u16).to_be_bytes());
    } else if v <= 0xffff_ffff {
        out.push(0xfe);
        out.extend_from_slice(&(v as u32).to_be_bytes());
    } else {
        out.push(0xff);
        out.extend_from_slice(&v.to_be_bytes());
    }
}

/// Strict (canonical) BigSize reader: (value, bytes consumed).
pub fn get_bigsize(b: &[u8]) -> Result<(u64, usize), &'static str> {
    let first = *b.first().ok_or("empty")?;
    match first {
        0xfd => {
            if b.len() < 3 {
                return Err("truncated");
            }
            let v = u16::from_be_bytes([b[1], b[2]]) as u64;
            if v < 0xfd {
                return Err("non-canonical");
            }
            Ok((v, 3))
        }
        0xfe => {
            if b.len() < 5 {
                return Err("truncated");
            }
            let v = u32::from_be_bytes([b[1], b[2], b[3], b[4]]) as u64;
            if v < 0x10000 {
                return Err("non-canonical");
            }
            Ok((v, 5))
        }
        0xff => {
            if b.len() < 9 {
                return Err("truncated");
            }
            let mut a = [0u8; 8];
            a.copy_from_slice(&b[1..9]);
            let v = u64::from_be_bytes(a);
            if v < 0x1_0000_0000 {
                return Err("non-canonical");
            }
            Ok((v, 9))
        }
        v => Ok((v as u64, 1)),
    }
}

pub type Rec = (u64, Vec<u8>);

pub fn encode_stream(recs: &[Rec]) -> Vec<u8> {
    let mut out = vec![];
    for (t, v) in recs {
        put_bigsize(&mut out, *t);
        put_bigsize(&mut out, v.len() as u64);
        out.extend_from_slice(v);
    }
    out
}

/// Strict BOLT TLV stream decoder: canonical BigSize, strictly increasing
/// types, lengths within the buffer, nothing dangling.
pub fn decode_stream_strict(mut b: &[u8]) -> Result<Vec<Rec>, &'static str> {
    let mut out: Vec<Rec> = vec![];
    while !b.is_empty() {
        let (t, n) = get_bigsize(b)?;
        b = &b[n..];
        let (l, n) = get_bigsize(b)?;
        b = &b[n..];
        if (b.len() as u64) < l {
            return Err("length overruns");
        }
        if let Some((pt, _)) = out.last() {
            if *pt >= t {
                return Err("types not strictly increasing");
            }
        }
        out.push((t, b[..l as usize].to_vec()));
        b = &b[l as usize..];
    }
    Ok(out)
}

/// Length-prefixed form used by `onion.payload`.
pub fn encode_payload(recs: &[Rec]) -> Vec<u8> {
    let body = encode_stream(recs);
    let mut out = vec![];
    put_bigsize(&mut out, body.len() as u64);
    out.extend_from_slice(&body);
    out
}

pub fn tu64_ref(b: &[u8]) -> Option<u64> {
    if b.len() > 8 {
        return None;
    }
    let mut v: u64 = 0;
    for x in b {
        v = (v << 8) | *x as u64;
    }
    Some(v)
}
