//! E2E engine: the real binary against the simulated node (filled in below).
use crate::runner::Session;
pub fn c20_e2e(_s: &mut Session) {}
pub fn c13_e2e(_s: &mut Session) {}
pub fn c06_e2e(_s: &mut Session) {}
