//! E2E engine: the real `trampoline` binary (built from /repo's working tree)
//! talking over stdin/stdout to the harness and over a unix socket to the same
//! simulated node as WORLD (here on a normal, unpaused runtime with an
//! autopilot answering RPCs). Real time is used only for generous waits; a
//! missed wait is *inconclusive*, never a violation.
use crate::node::*;
use crate::refmodel::*;
use crate::runner::*;
use crate::scen::*;
use crate::world::{serve, Ev, PendingRpc, Shared};
use proptest::prelude::*;
use serde::{Deserialize, Serialize};
use serde_json::{json, Map, Value};
use std::sync::{Arc, Mutex};
use std::time::Duration;
use tokio::io::{AsyncReadExt, AsyncWriteExt};

pub fn binary() -> String {
    std::env::var("VERIF_TRAMPOLINE_BIN").unwrap_or_else(|_| "/repo/target/debug/trampoline".into())
}

#[derive(Clone, Copy, Debug, PartialEq, Eq, Serialize, Deserialize)]
pub enum PayMode {
    FailFast,
    Complete,
}

thread_local! {
    /// per-thread knob read by Proc::start: delay of automatic getinfo replies (slow lightningd at startup)
    pub static GETINFO_DELAY_MS: std::cell::Cell<u64> = const { std::cell::Cell::new(0) };
    /// datastore records (key, string) and hashes with a complete part that exist before the plugin starts
    /// (consumed by the next Proc::start of this thread)
    pub static PRESET: std::cell::RefCell<(Vec<(Vec<String>, String)>, Vec<[u8; 32]>)> = const { std::cell::RefCell::new((Vec::new(), Vec::new())) };
}

pub struct Proc {
    child: tokio::process::Child,
    stdin: tokio::process::ChildStdin,
    pub out: Arc<Mutex<Vec<u8>>>,
    pub err: Arc<Mutex<String>>,
    pub shared: Arc<Mutex<Shared>>,
    dir: std::path::PathBuf,
    tasks: Vec<tokio::task::JoinHandle<()>>,
}

pub enum Started {
    Running(Proc),
    Refused { code: Option<i32>, stderr: String, init_replied: bool },
}

static DIRN: std::sync::atomic::AtomicU64 = std::sync::atomic::AtomicU64::new(0);

/// every complete frame written so far (split on blank lines)
pub fn frames(out: &Arc<Mutex<Vec<u8>>>) -> (Vec<Result<Value, String>>, String) {
    let b = out.lock().unwrap().clone();
    let text = String::from_utf8_lossy(&b).to_string();
    let mut parts: Vec<&str> = text.split("\n\n").collect();
    let tail = parts.pop().unwrap_or("").to_string();
    (parts.into_iter().map(|f| serde_json::from_str::<Value>(f).map_err(|e| format!("{e}: {f:?}"))).collect(), tail)
}

async fn autopilot(shared: Arc<Mutex<Shared>>, mode: PayMode) {
    loop {
        tokio::time::sleep(Duration::from_millis(3)).await;
        let mut g = shared.lock().unwrap();
        let s = &mut *g;
        let mut i = 0;
        while i < s.pending.len() {
            let method = s.pending[i].method.clone();
            let reply: Option<Value> = match method.as_str() {
                "datastore" => Some(s.node.datastore_write(&s.pending[i].params.clone()).0),
                "deldatastore" => Some(s.node.datastore_delete(&s.pending[i].params.clone()).0),
                "listdatastore" if s.err_text.is_some() => Some(rpc_error(-1, s.err_text.as_deref().unwrap())),
                "listdatastore" => Some(s.node.listdatastore(&s.pending[i].params)),
                "listsendpays" => Some(s.node.listsendpays(&s.pending[i].params)),
                "waitsendpay" if s.hold_waitsendpay => s.node.waitsendpay(&s.pending[i].params),
                "waitsendpay" => Some(s.node.waitsendpay(&s.pending[i].params).unwrap_or_else(|| rpc_error(200, "timed out"))),
                "pay" if s.hold_pays => None,
                "pay" => {
                    let hash = s.pending[i].hash;
                    match (mode, hash) {
                        (PayMode::Complete, Some(h)) if s.node.preimages.contains_key(&h) => {
                            if !s.node.has_complete(&h) {
                                let g = s.node.new_group();
                                let p = s.node.add_part(h, g, Some(s.pending[i].uid));
                                s.node.parts[p].status = PartStatus::Complete;
                            }
                            Some(json!({"result": {"status": "complete", "amount_msat": 1000, "amount_sent_msat": 1001, "created_at": 1700000000.5, "parts": 1,
                                "payment_hash": hex::encode(h), "payment_preimage": hex::encode(s.node.preimages[&h]), "destination": pubkey(&dest_secret()).to_string()}}))
                        }
                        _ => Some(rpc_error(210, "Ran out of routes to try (simulated)")),
                    }
                }
                _ => Some(rpc_error(-32601, "unknown method")),
            };
            if let Some(r) = reply {
                let mut p = s.pending.remove(i);
                let ok = r.get("result").is_some();
                if let Some(tx) = p.tx.take() {
                    let _ = tx.send(r.clone());
                }
                s.push(Ev::RpcAnswer { uid: p.uid, method: p.method.clone(), hash: p.hash, applied: true, ok, reply: r, fault: false });
            } else {
                i += 1;
            }
        }
    }
}

impl Proc {
    pub async fn start(options: Map<String, Value>, log_level: Option<&str>, mode: PayMode, height: u32, preimages: &[[u8; 32]]) -> Result<Started, String> {
        let n = DIRN.fetch_add(1, std::sync::atomic::Ordering::Relaxed);
        let dir = std::env::temp_dir().join(format!("vfe2e_{}_{}", std::process::id(), n));
        let _ = std::fs::remove_dir_all(&dir);
        std::fs::create_dir_all(&dir).map_err(|e| e.to_string())?;
        let sock = dir.join("lightning-rpc");
        let listener = tokio::net::UnixListener::bind(&sock).map_err(|e| format!("bind: {e}"))?;
        let mut node = NodeState::default();
        node.height = height;
        for p in preimages {
            use secp256k1::hashes::{sha256, Hash};
            node.preimages.insert(sha256::Hash::hash(p).to_byte_array(), *p);
        }
        let (recs, done) = PRESET.with(|p| std::mem::take(&mut *p.borrow_mut()));
        for (k, v) in recs {
            node.datastore.insert(k, (v, 0));
        }
        for h in done {
            let g = node.new_group();
            let uid = node.add_part(h, g, None);
            node.parts[uid].status = PartStatus::Complete;
        }
        let shared = Arc::new(Mutex::new(Shared {
            node,
            log: vec![],
            pending: vec![],
            activity: 0,
            next_uid: 1,
            win: 0,
            life: 0,
            base_ms: 0,
            t0: Some(tokio::time::Instant::now()),
            auto_getinfo: u32::MAX,
            local_id: local_pubkey().to_string(),
            getinfo_delay_ms: GETINFO_DELAY_MS.with(|d| d.get()),
            hold_pays: false,
            hold_waitsendpay: false,
            err_text: None,
        }));
        let mut tasks = vec![];
        tasks.push(tokio::spawn(serve(listener, shared.clone())));
        tasks.push(tokio::spawn(autopilot(shared.clone(), mode)));
        let mut cmd = tokio::process::Command::new(binary());
        cmd.current_dir(&dir).stdin(std::process::Stdio::piped()).stdout(std::process::Stdio::piped()).stderr(std::process::Stdio::piped()).kill_on_drop(true);
        cmd.env_remove("RUST_LOG");
        cmd.env("RUST_BACKTRACE", "0");
        // a check killed by the watchdog must not leave (possibly deadlocked) plugin processes behind
        unsafe {
            cmd.pre_exec(|| {
                libc::prctl(libc::PR_SET_PDEATHSIG, libc::SIGKILL);
                Ok(())
            });
        }
        match log_level {
            Some(l) => {
                cmd.env("CLN_PLUGIN_LOG", l);
            }
            None => {
                cmd.env("CLN_PLUGIN_LOG", "info");
            }
        }
        let mut child = cmd.spawn().map_err(|e| format!("spawn {}: {e}", binary()))?;
        let mut stdin = child.stdin.take().unwrap();
        let mut stdout = child.stdout.take().unwrap();
        let mut stderr = child.stderr.take().unwrap();
        let out = Arc::new(Mutex::new(Vec::<u8>::new()));
        let err = Arc::new(Mutex::new(String::new()));
        let o2 = out.clone();
        tasks.push(tokio::spawn(async move {
            let mut buf = [0u8; 8192];
            loop {
                match stdout.read(&mut buf).await {
                    Ok(0) | Err(_) => break,
                    Ok(n) => o2.lock().unwrap().extend_from_slice(&buf[..n]),
                }
            }
        }));
        let e2 = err.clone();
        tasks.push(tokio::spawn(async move {
            let mut buf = [0u8; 8192];
            loop {
                match stderr.read(&mut buf).await {
                    Ok(0) | Err(_) => break,
                    Ok(n) => e2.lock().unwrap().push_str(&String::from_utf8_lossy(&buf[..n])),
                }
            }
        }));
        let hs1 = json!({"jsonrpc":"2.0","id":"hs-1","method":"getmanifest","params":{"allow-deprecated-apis":false}}).to_string() + "\n\n";
        stdin.write_all(hs1.as_bytes()).await.map_err(|e| e.to_string())?;
        let mut p = Proc { child, stdin, out, err, shared, dir, tasks };
        if p.wait_reply(&json!("hs-1"), 20_000).await.is_none() {
            let e = p.err.lock().unwrap().clone();
            p.stop().await;
            return Err(format!("no getmanifest reply; stderr: {e}"));
        }
        let init = json!({"jsonrpc":"2.0","id":"hs-2","method":"init","params":{"options": options, "configuration":{"lightning-dir": p.dir.to_string_lossy(), "rpc-file":"lightning-rpc","startup":true,"network":"regtest","feature_set":{"init":"","node":"","channel":"","invoice":""}}}}).to_string() + "\n\n";
        let _ = p.stdin.write_all(init.as_bytes()).await;
        // either the init reply arrives or the process exits
        for _ in 0..4000 {
            if p.reply(&json!("hs-2")).is_some() {
                return Ok(Started::Running(p));
            }
            if let Ok(Some(st)) = p.child.try_wait() {
                tokio::time::sleep(Duration::from_millis(30)).await;
                let init_replied = p.reply(&json!("hs-2")).is_some();
                let stderr = p.err.lock().unwrap().clone();
                p.cleanup();
                return Ok(Started::Refused { code: st.code(), stderr, init_replied });
            }
            tokio::time::sleep(Duration::from_millis(5)).await;
        }
        let e = p.err.lock().unwrap().clone();
        p.stop().await;
        Err(format!("neither init reply nor exit within 20 s; stderr: {e}"))
    }

    pub fn reply(&self, id: &Value) -> Option<Value> {
        let (fr, _) = frames(&self.out);
        fr.into_iter().filter_map(|f| f.ok()).find(|f| f.get("id") == Some(id) && f.get("method").is_none())
    }

    pub fn replies(&self, id: &Value) -> Vec<Value> {
        let (fr, _) = frames(&self.out);
        fr.into_iter().filter_map(|f| f.ok()).filter(|f| f.get("id") == Some(id) && f.get("method").is_none()).collect()
    }

    pub async fn wait_reply(&self, id: &Value, timeout_ms: u64) -> Option<Value> {
        let t0 = std::time::Instant::now();
        loop {
            if let Some(r) = self.reply(id) {
                return Some(r);
            }
            if t0.elapsed() > Duration::from_millis(timeout_ms) {
                return None;
            }
            tokio::time::sleep(Duration::from_millis(4)).await;
        }
    }

    /// write to the plugin's stdin; a plugin that has stopped reading (pipe full) must not hang the check
    pub async fn write_stdin(&mut self, bytes: &[u8]) -> bool {
        match tokio::time::timeout(Duration::from_secs(10), async {
            self.stdin.write_all(bytes).await?;
            self.stdin.flush().await
        })
        .await
        {
            Ok(Ok(())) => true,
            _ => false,
        }
    }

    pub async fn send(&mut self, v: &Value) -> bool {
        let s = v.to_string() + "\n\n";
        self.write_stdin(s.as_bytes()).await
    }

    pub async fn send_htlc(&mut self, id: Value, req: &Value) -> bool {
        self.send(&json!({"jsonrpc":"2.0","id": id, "method":"htlc_accepted","params": req})).await
    }

    /// like send_htlc, but the bytes reach the plugin in two writes (cut = 1: between the two newlines)
    pub async fn send_htlc_cut(&mut self, id: Value, req: &Value, cut: u16) -> bool {
        if cut == 0 {
            return self.send_htlc(id, req).await;
        }
        let s = json!({"jsonrpc":"2.0","id": id, "method":"htlc_accepted","params": req}).to_string() + "\n\n";
        let b = s.as_bytes();
        let at = if cut == 1 { b.len() - 1 } else { (cut as usize).min(b.len() - 1) };
        let (first, second) = (b[..at].to_vec(), b[at..].to_vec());
        if !self.write_stdin(&first).await {
            return false;
        }
        tokio::time::sleep(Duration::from_millis(15)).await;
        self.write_stdin(&second).await
    }

    pub async fn send_block(&mut self, height: u32) -> bool {
        self.send(&json!({"jsonrpc":"2.0","method":"block_added","params":{"block_added":{"hash":"00".repeat(32),"height":height}}})).await
    }

    /// non-getinfo RPC requests seen by the node
    pub fn rpcs(&self) -> Vec<(String, Value)> {
        self.shared.lock().unwrap().log.iter().filter_map(|r| if let Ev::RpcArrive { method, params, .. } = &r.ev { Some((method.clone(), params.clone())) } else { None }).collect()
    }

    /// getinfo requests that reached the simulated node (they are answered automatically and logged as HeightTold)
    pub fn getinfo_count(&self) -> usize {
        self.shared.lock().unwrap().log.iter().filter(|r| matches!(&r.ev, Ev::HeightTold { via, .. } if *via == "getinfo")).count()
    }

    /// notification topics the plugin subscribed to in its getmanifest reply
    pub fn subscriptions(&self) -> Vec<String> {
        self.reply(&json!("hs-1")).and_then(|r| r["result"]["subscriptions"].as_array().cloned()).unwrap_or_default().iter().filter_map(|x| x.as_str().map(String::from)).collect()
    }

    pub fn panicked(&self) -> Option<String> {
        let e = self.err.lock().unwrap();
        e.find("panicked at").map(|i| e[i..].chars().take(300).collect())
    }

    fn cleanup(&mut self) {
        for t in self.tasks.drain(..) {
            t.abort();
        }
        let _ = std::fs::remove_dir_all(&self.dir);
    }

    pub async fn stop(mut self) {
        let _ = self.child.kill().await;
        self.cleanup();
    }
}

/// user+system CPU ticks of a process (all threads), from /proc/<pid>/stat
fn cpu_ticks(pid: u32) -> Option<u64> {
    let st = std::fs::read_to_string(format!("/proc/{pid}/stat")).ok()?;
    let rest = st.rsplit_once(')')?.1;
    let f: Vec<&str> = rest.split_whitespace().collect();
    // after the command name: state(0) ppid(1) ... utime is the 12th, stime the 13th field
    Some(f.get(11)?.parse::<u64>().ok()? + f.get(12)?.parse::<u64>().ok()?)
}

pub fn rt() -> tokio::runtime::Runtime {
    tokio::runtime::Builder::new_multi_thread().worker_threads(2).enable_all().build().unwrap()
}

fn bin_missing() -> bool {
    !std::path::Path::new(&binary()).exists()
}

pub fn default_options() -> Map<String, Value> {
    let mut m = Map::new();
    m.insert("trampoline-mpp-timeout".into(), json!(1));
    m
}

// ------------------------------------------------------------------ C06 / C13: request batches

#[derive(Clone, Debug, Serialize, Deserialize)]
pub struct Batch {
    pub scn: Scenario,
    pub log_trace: bool,
    /// write each request in two pieces: 0 = whole, 1 = cut between the two newlines of the separator, n>1 = cut after n bytes
    #[serde(default)]
    pub cut: u16,
    /// this many plain forwards are written to the plugin in ONE write before the scenario's requests, so that
    /// many handlers (and, at trace level, their log notifications) run at overlapping times on the worker threads
    #[serde(default)]
    pub burst: u16,
}

fn batch_scenario(nontramp_only: bool) -> impl Strategy<Value = Batch> {
    let prof = if nontramp_only {
        Profile { w_nontramp: 100, w_reject: 0, w_hash_mismatch: 0, w_raw_payload: 0, max_parts: 6, max_payments: 2, steps: 0..1, crashes: false, write_faults: false, heights: false, ..Profile::default() }
    } else {
        Profile { w_raw_payload: 45, w_nontramp: 15, w_reject: 10, w_hash_mismatch: 5, max_parts: 6, max_payments: 3, steps: 0..1, crashes: false, write_faults: false, heights: false, w_under: 40, raw_bytes: true, mpp_choices: &[1], ..Profile::default() }
    };
    (scenario_strategy(prof), any::<bool>(), prop_oneof![2 => Just(0u16), 2 => Just(1u16), 1 => 2u16..400]).prop_map(|(mut scn, log_trace, cut)| {
        scn.steps.clear();
        scn.hold.clear();
        scn.cfg = Cfg { mpp_timeout_s: 1, ..Cfg::default() };
        Batch { scn, log_trace, cut, burst: 0 }
    })
}

/// Sends every HTLC of the scenario to one process; returns violations for `prop`.
fn run_batch(b: &Batch, prop: &'static str) -> CaseReport {
    let mut rep = CaseReport::default();
    if bin_missing() {
        rep.inconclusive = true;
        return rep;
    }
    let scn = &b.scn;
    let r = rt();
    let res: Result<(), String> = r.block_on(async {
        let pre: Vec<[u8; 32]> = scn.payments.iter().map(|p| p.preimage_bytes()).collect();
        let started = Proc::start(default_options(), if b.log_trace { Some("trace") } else { None }, PayMode::FailFast, scn.start_height, &pre).await?;
        let mut p = match started {
            Started::Running(p) => p,
            Started::Refused { stderr, .. } => return Err(format!("plugin refused to start with default options: {stderr}")),
        };
        let n = scn.htlcs.len();
        if b.burst > 0 {
            let mut blob = String::new();
            for k in 0..b.burst {
                let fwd = json!({"onion": {"payload": "", "short_channel_id": "1x1x1", "forward_msat": 1}, "htlc": {"short_channel_id": "1x1x1", "id": 100000 + k as u64, "amount_msat": 1, "cltv_expiry": 10, "cltv_expiry_relative": 5, "payment_hash": "00".repeat(32)}});
                blob.push_str(&(json!({"jsonrpc":"2.0","id": format!("b{k}"), "method":"htlc_accepted","params": fwd}).to_string() + "\n\n"));
            }
            let _ = p.write_stdin(blob.as_bytes()).await;
        }
        for i in 0..n {
            if !p.send_htlc_cut(json!(format!("h{i}")), &scn.render(i), b.cut).await {
                break;
            }
        }
        // wait: every HTLC answers within a few seconds (MPP timeout 1 s, pay fails fast)
        let t0 = std::time::Instant::now();
        loop {
            let done = (0..n).filter(|i| p.reply(&json!(format!("h{i}"))).is_some()).count();
            if done == n || p.panicked().is_some() || t0.elapsed() > Duration::from_secs(12) {
                break;
            }
            tokio::time::sleep(Duration::from_millis(20)).await;
        }
        tokio::time::sleep(Duration::from_millis(50)).await;
        // replies missing without a panic: is the plugin alive and answering other requests at once?
        let burst_missing = {
            let (fr, _) = frames(&p.out);
            let got: std::collections::HashSet<String> = fr.iter().filter_map(|f| f.as_ref().ok()).filter_map(|f| f["id"].as_str().map(String::from)).collect();
            (0..b.burst).filter(|k| !got.contains(&format!("b{k}"))).count()
        };
        let missing = (0..n).filter(|i| p.reply(&json!(format!("h{i}"))).is_none()).count() + burst_missing;
        let mut alive = false;
        let mut exited_late = false;
        let mut quiescent = false;
        let exited = matches!(p.child.try_wait(), Ok(Some(_)));
        if missing > 0 && exited && p.panicked().is_none() {
            let d = format!("the plugin process exited with {missing} htlc_accepted calls unanswered (stdin still open); stderr: {}", p.err.lock().unwrap().chars().take(200).collect::<String>());
            rep.violations.push(Violation::new("C06", "plugin_exited_with_unanswered_requests", d.clone()));
            rep.violations.push(Violation::new("C17", "plugin_exited_with_unanswered_requests", d));
        }
        if missing > 0 && !exited && p.panicked().is_none() {
            let ping = json!({"onion": {"payload": "", "short_channel_id": "1x1x1", "forward_msat": 1}, "htlc": {"short_channel_id": "1x1x1", "id": 999999, "amount_msat": 1, "cltv_expiry": 10, "cltv_expiry_relative": 5, "payment_hash": "00".repeat(32)}});
            p.send_htlc(json!("ping"), &ping).await;
            alive = p.wait_reply(&json!("ping"), 3000).await.is_some();
            if !alive && matches!(p.child.try_wait(), Ok(None)) && p.panicked().is_none() {
                // Neither dead nor answering. The plugin only ever waits for timers (MPP timeout 1 s, long past), for
                // RPC replies (the node has none outstanding) or for input. If, on top of that, the process uses no
                // CPU at all for 3 s it is not slow but stuck (deadlock / lost wake-up).
                let rpc_outstanding = !p.shared.lock().unwrap().pending.is_empty();
                if let (Some(pid), false) = (p.child.id(), rpc_outstanding) {
                    let a = cpu_ticks(pid);
                    tokio::time::sleep(Duration::from_secs(3)).await;
                    let b = cpu_ticks(pid);
                    let still_missing = (0..n).filter(|i| p.reply(&json!(format!("h{i}"))).is_none()).count();
                    if a.is_some() && a == b && still_missing > 0 && p.reply(&json!("ping")).is_none() {
                        quiescent = true;
                        let d = format!("{still_missing} htlc_accepted calls and a later well-formed request are unanswered >15 s after delivery; the node has no RPC of the plugin outstanding, every timer has expired and the process used no CPU time for 3 s: the plugin is stuck");
                        rep.violations.push(Violation::new("C06", "plugin_stuck_with_unanswered_requests", d.clone()));
                        rep.violations.push(Violation::new("C17", "plugin_stuck_with_unanswered_requests", d));
                    }
                }
            }
            if !alive && matches!(p.child.try_wait(), Ok(Some(_))) && p.panicked().is_none() {
                // a well-formed request made the process exit (stdin is still open)
                exited_late = true;
                let d = format!("the plugin process exited after a further well-formed request, leaving {missing} htlc_accepted calls unanswered; stderr: {}", p.err.lock().unwrap().chars().take(200).collect::<String>());
                rep.violations.push(Violation::new("C06", "plugin_exited_with_unanswered_requests", d.clone()));
                rep.violations.push(Violation::new("C17", "plugin_exited_with_unanswered_requests", d));
            }
        }
        if let Some(msg) = p.panicked() {
            rep.violations.push(Violation::new("C06", "panic_in_binary", format!("stderr of the plugin: {msg}")).with_sig(json!({"kind":"panic_in_binary"})));
        }
        let (fr, tail) = frames(&p.out);
        for f in &fr {
            if let Err(e) = f {
                rep.violations.push(Violation::new("C17", "stdout_frame_is_not_json", e.clone()));
            }
        }
        if !tail.trim().is_empty() && p.panicked().is_none() {
            // a partial frame may legitimately be in flight only while the process is still writing; re-check after a pause
            tokio::time::sleep(Duration::from_millis(200)).await;
            let (_, tail2) = frames(&p.out);
            if !tail2.trim().is_empty() {
                rep.violations.push(Violation::new("C17", "stdout_unterminated_frame", format!("stdout ends with {tail2:?}")));
            }
        }
        let logs = fr.iter().filter_map(|f| f.as_ref().ok()).filter(|f| f["method"] == "log").count();
        if logs > 0 {
            rep.classes.push("log_notifications_on_stdout".into());
        }
        let rpcs = p.rpcs();
        for i in 0..n {
            let id = json!(format!("h{i}"));
            let rs = p.replies(&id);
            let class = scn.classify(i);
            if rs.len() > 1 {
                rep.violations.push(Violation::new("C06", "more_than_one_reply", format!("request h{i} got {} replies", rs.len())));
                rep.violations.push(Violation::new("C17", "more_than_one_reply", format!("request h{i} got {} replies", rs.len())));
            }
            match rs.first() {
                None => {
                    if exited || exited_late || quiescent {
                        // reported once above
                    } else if p.panicked().is_none() && alive {
                        // >= 12 s after delivery with a 1 s MPP timeout and a pay that fails at once, while a request sent
                        // *afterwards* is answered immediately: the call is not slow, it is lost
                        let d = format!("request h{i} never answered although the plugin answers a later request at once (12 s after delivery; MPP timeout 1 s)");
                        rep.violations.push(Violation::new("C06", "no_reply_while_plugin_alive", d.clone()));
                        rep.violations.push(Violation::new("C17", "no_reply_while_plugin_alive", d));
                    } else if p.panicked().is_none() {
                        rep.inconclusive = true;
                        rep.classes.push("reply_missing_without_panic(inconclusive)".into());
                    } else {
                        rep.violations.push(Violation::new("C06", "no_reply_after_panic", format!("request h{i} ({:?}) never answered; the plugin panicked", scn.htlcs[i].raw_payload)).with_sig(json!({"kind":"no_reply_after_panic"})));
                    }
                }
                Some(r) => {
                    let res = r["result"]["result"].as_str().unwrap_or("");
                    if r.get("error").is_some() || !matches!(res, "continue" | "fail" | "resolve") {
                        rep.violations.push(
                            Violation::new("C06", "reply_is_not_continue_fail_resolve", format!("request h{i} (payload {}) answered {}", scn.payload_hex(&scn.htlcs[i]).chars().take(60).collect::<String>(), r.to_string().chars().take(200).collect::<String>()))
                                .with_sig(json!({"kind":"reply_is_not_continue_fail_resolve", "jsonrpc_error": r.get("error").is_some()})),
                        );
                    } else if class == Class::NonTrampoline {
                        if res != "continue" {
                            rep.violations.push(Violation::new("C13", "non_trampoline_not_continued", format!("binary answered h{i} with {}", r["result"])));
                        } else if let Some(pl) = r["result"].get("payload").and_then(|x| x.as_str()) {
                            let want: Vec<Rec> = scn.payload_records(&scn.htlcs[i]).into_iter().filter(|x| x.0 != TLV_META).collect();
                            if pl != hex::encode(encode_stream(&want)) {
                                rep.violations.push(Violation::new("C13", "payload_rewrite_changed_other_records", format!("h{i}: {pl}")));
                            }
                            rep.classes.push("rewrite_branch_taken".into());
                        }
                    }
                }
            }
        }
        if burst_missing > 0 && !quiescent && !exited && !exited_late && p.panicked().is_none() {
            if alive {
                let d = format!("{burst_missing} of {} plain forwards written in one burst were never answered although the plugin answers a later request at once", b.burst);
                rep.violations.push(Violation::new("C06", "no_reply_while_plugin_alive", d.clone()));
                rep.violations.push(Violation::new("C17", "no_reply_while_plugin_alive", d));
            } else {
                rep.inconclusive = true;
            }
        }
        let all_nontramp = (0..n).all(|i| scn.classify(i) == Class::NonTrampoline);
        if all_nontramp && !rpcs.is_empty() {
            rep.violations.push(Violation::new("C13", "side_effect_for_non_trampoline_htlc", format!("RPC socket not idle: {:?}", rpcs.iter().map(|r| r.0.clone()).collect::<Vec<_>>())));
        }
        if all_nontramp {
            rep.classes.push("all_non_trampoline".into());
        }
        p.stop().await;
        Ok(())
    });
    if let Err(e) = res {
        rep.inconclusive = true;
        rep.classes.push(format!("infrastructure: {}", e.chars().take(80).collect::<String>()));
    }
    let malformed = scn.htlcs.iter().filter(|h| h.raw_payload.is_some() || matches!(h.meta, Meta::RawMeta(_))).count();
    rep.nontrivial = match prop {
        "C06" => malformed > 0 || scn.htlcs.len() >= 3,
        "C17" => scn.htlcs.len() >= 2 && b.log_trace,
        _ => scn.htlcs.len() >= 1,
    };
    rep.fingerprint = fp_of(&(0..scn.htlcs.len()).map(|i| scn.render(i).to_string()).collect::<Vec<_>>());
    rep.classes.push(format!("malformed_{}", malformed.min(3)));
    if rep.nontrivial {
        rep.sample = Some(json!({"requests": (0..scn.htlcs.len().min(4)).map(|i| scn.render(i)["onion"]["payload"].clone()).collect::<Vec<_>>(), "n_requests": scn.htlcs.len(), "trace_logging": b.log_trace}));
    }
    rep
}

fn e2e_workers_note(s: &mut Session) {
    s.assume("E2E: real binary target/debug/trampoline built from /repo's working tree; real time only bounds waits (a missing reply without a panic line is inconclusive, exit 2)");
}

/// runs `f` and books the inconclusive cases it produced as E2E-inconclusive
fn booked(s: &mut Session, f: impl FnOnce(&mut Session)) {
    let before = s.total.inconclusive;
    let keep = s.shrink_iters;
    s.shrink_iters = 10; // an E2E case costs seconds of real time
    f(s);
    s.shrink_iters = keep;
    s.e2e_inconclusive += s.total.inconclusive - before;
}

pub fn c06_e2e(s: &mut Session) {
    e2e_workers_note(s);
    booked(s, |s| {
        s.regress::<Batch, _>("e2e-batch", |b| run_batch(b, "C06"));
        let n = s.tier.pick(2, 20);
        s.search("e2e-binary-batches", "e2e-batch", n, || (batch_scenario(false), prop_oneof![2 => Just(0u16), 1 => Just(200u16)]).prop_map(|(mut b, burst)| { b.burst = burst; b }), |b| run_batch(b, "C06"));
        s.regress::<ErrText, _>("e2e-err-text", run_err_text);
        let n = s.tier.pick(1, 6);
        s.search("e2e-long-non-ascii-error-text", "e2e-err-text", n, || (0u8..4, 0u8..3, prop_oneof![1 => 10u16..200, 3 => 250u16..1200], any::<bool>()).prop_map(|(prefix, width, chars, trace_log)| ErrText { prefix, width, chars, trace_log }), run_err_text);
    });
}

pub fn c13_e2e(s: &mut Session) {
    e2e_workers_note(s);
    booked(s, |s| {
        s.regress::<Batch, _>("e2e-batch", |b| run_batch(b, "C13"));
        s.search("e2e-binary-nontrampoline", "e2e-batch", 12, || batch_scenario(true), |b| run_batch(b, "C13"));
    });
}

pub fn c17_e2e(s: &mut Session) {
    e2e_workers_note(s);
    booked(s, |s| {
        s.regress::<Batch, _>("e2e-batch", |b| run_batch(b, "C17"));
        let n = s.tier.pick(2, 16);
        s.search("e2e-binary-trace-logging", "e2e-batch", n, || (batch_scenario(false), prop_oneof![Just(0u16), Just(60u16), Just(400u16)]).prop_map(|(mut b, burst)| { b.log_trace = true; b.burst = burst; b }), |b| run_batch(b, "C17"));
    });
}

pub fn replay_batch(prop: &'static str, c: Value) -> Option<CaseReport> {
    Some(run_batch(&serde_json::from_value(c).ok()?, prop))
}

// ------------------------------------------------------------------ C20 wiring through the binary

#[derive(Clone, Debug, Serialize, Deserialize)]
pub struct HeightCase {
    pub start: u32,
    pub blocks: Vec<u32>,
    pub expiry_above: u32,
    /// lightningd answers getinfo only after this many ms (startup must wait for it)
    #[serde(default)]
    pub getinfo_delay_ms: u64,
    /// after `blocks`: this many consecutive block_added notifications (the node catching up) in ONE write
    #[serde(default)]
    pub burst: u16,
}

fn height_case() -> impl Strategy<Value = HeightCase> {
    (100u32..5000, proptest::collection::vec(0u32..6000, 0..6), 40u32..3000, prop_oneof![Just(0u64), Just(250u64)], prop_oneof![2 => Just(0u16), 1 => 2u16..40, 2 => 40u16..300]).prop_map(|(start, blocks, expiry_above, getinfo_delay_ms, burst)| HeightCase { start, blocks, expiry_above, getinfo_delay_ms, burst })
}

fn run_height(c: &HeightCase) -> CaseReport {
    let mut rep = CaseReport::default();
    if bin_missing() {
        rep.inconclusive = true;
        return rep;
    }
    let max_before_burst = c.blocks.iter().cloned().chain([c.start]).max().unwrap();
    let max_told = max_before_burst + c.burst as u32;
    let cfg = Cfg { mpp_timeout_s: 1, ..Cfg::default() };
    let pay = PaymentSpec { preimage_hi: 0, preimage: 0x33, invoice_amount: Some(1_000_000), tlv_amount: 1_000_000, hints: Hints::None, explicit_payee: false, recipient_ok: false, drain_parts: 0 };
    let need = needed_total(&cfg, 1_000_000);
    let expiry = max_told + c.expiry_above;
    let h = HtlcSpec { pay: 0, hash_of: None, amount_msat: need, total_msat: Some(need), forward_msat: Some(need), cltv_expiry: expiry, cltv_rel: 1100, forward: false, meta: Meta::Normal, extra: vec![], raw_payload: None };
    let scn = crate::props::c13::blank(vec![pay], vec![h], 1);
    let r = rt();
    let res: Result<(), String> = r.block_on(async {
        GETINFO_DELAY_MS.with(|d| d.set(c.getinfo_delay_ms));
        let started = Proc::start(default_options(), None, PayMode::FailFast, c.start, &[]).await;
        GETINFO_DELAY_MS.with(|d| d.set(0));
        let mut p = match started? {
            Started::Running(p) => p,
            Started::Refused { stderr, .. } => return Err(format!("refused: {stderr}")),
        };
        if c.getinfo_delay_ms > 0 && c.blocks.is_empty() {
            // the HTLC follows the init reply at once: the startup height query must have completed by then
        }
        for b in &c.blocks {
            p.send_block(*b).await;
        }
        if c.burst > 0 {
            let mut bytes = String::new();
            for i in 1..=c.burst as u32 {
                bytes += &json!({"jsonrpc":"2.0","method":"block_added","params":{"block_added":{"hash":"00".repeat(32),"height": max_before_burst + i}}}).to_string();
                bytes += "\n\n";
            }
            p.write_stdin(bytes.as_bytes()).await;
        }
        // notifications are handled by spawned tasks: give them time before the HTLC
        if !c.blocks.is_empty() || c.burst > 0 {
            tokio::time::sleep(Duration::from_millis(150 + c.burst as u64 * 2)).await;
        }
        p.send_htlc(json!("x"), &scn.render(0)).await;
        if p.wait_reply(&json!("x"), 10_000).await.is_none() {
            if let Some(m) = p.panicked() {
                rep.violations.push(Violation::new("C20", "panic_in_binary", m));
            } else {
                rep.inconclusive = true;
            }
        }
        let pay_req = p.rpcs().into_iter().find(|r| r.0 == "pay");
        match pay_req {
            None => rep.inconclusive = true,
            Some((_, params)) => {
                let want = (expiry.saturating_sub(max_told).saturating_sub(34)).min(1008) as u64;
                let got = params["maxdelay"].as_u64();
                if got != Some(want) {
                    rep.violations.push(Violation::new(
                        "C20",
                        "binary_does_not_use_max_height_told",
                        format!("startup height {}, block_added {:?} then a burst of {} consecutive blocks in one write: pay maxdelay {got:?}, expected {want} (expiry {expiry} - max height {max_told} - 34, capped at 1008)", c.start, c.blocks, c.burst),
                    ));
                }
            }
        }
        p.stop().await;
        Ok(())
    });
    if let Err(e) = res {
        rep.inconclusive = true;
        rep.classes.push(format!("infrastructure: {}", e.chars().take(80).collect::<String>()));
    }
    let stale = c.blocks.windows(2).any(|w| w[1] <= w[0]) || c.blocks.iter().any(|b| *b <= c.start);
    rep.nontrivial = stale || c.burst > 1;
    rep.fingerprint = fp_of(&(c.start, &c.blocks, c.expiry_above, c.burst));
    if c.burst >= 40 {
        rep.classes.push("e2e_block_added_burst_40_or_more".into());
    }
    rep.classes.push("e2e_block_added_wiring".into());
    if rep.nontrivial {
        rep.sample = Some(serde_json::to_value(c).unwrap());
    }
    rep
}

// ------------------------------------------------------------------ C02: a slow pay command through the binary

#[derive(Clone, Debug, Serialize, Deserialize)]
pub struct SlowPay {
    pub hold_s: u64,
    pub pay_timeout: i64,
    pub xpay: bool,
}

/// The node leaves `pay` unanswered for `hold_s` seconds (a payment that takes long). While it runs the HTLC
/// must not be failed, whatever the configured timeouts; when pay completes the HTLC is settled.
fn run_slow_pay(c: &SlowPay) -> CaseReport {
    let mut rep = CaseReport::default();
    if bin_missing() {
        rep.inconclusive = true;
        return rep;
    }
    let cfg = Cfg { mpp_timeout_s: 1, ..Cfg::default() };
    let pay = PaymentSpec { preimage_hi: 0, preimage: 0x35, invoice_amount: Some(1_000_000), tlv_amount: 1_000_000, hints: Hints::None, explicit_payee: false, recipient_ok: true, drain_parts: 1 };
    let need = needed_total(&cfg, 1_000_000);
    let h = HtlcSpec { pay: 0, hash_of: None, amount_msat: need, total_msat: Some(need), forward_msat: Some(need), cltv_expiry: 1000 + 1200, cltv_rel: 1100, forward: false, meta: Meta::Normal, extra: vec![], raw_payload: None };
    let scn = crate::props::c13::blank(vec![pay.clone()], vec![h], 1);
    let r = rt();
    let res: Result<(), String> = r.block_on(async {
        let mut o = default_options();
        o.insert("trampoline-payment-timeout".into(), json!(c.pay_timeout));
        o.insert("trampoline-xpay".into(), json!(c.xpay));
        let started = Proc::start(o, None, PayMode::Complete, 1000, &[pay.preimage_bytes()]).await?;
        let mut p = match started {
            Started::Running(p) => p,
            Started::Refused { stderr, .. } => return Err(format!("refused: {stderr}")),
        };
        p.shared.lock().unwrap().hold_pays = true;
        p.send_htlc(json!("slow"), &scn.render(0)).await;
        let t0 = std::time::Instant::now();
        let mut early: Option<Value> = None;
        while t0.elapsed() < Duration::from_secs(c.hold_s) {
            if let Some(rp) = p.reply(&json!("slow")) {
                early = Some(rp);
                break;
            }
            tokio::time::sleep(Duration::from_millis(50)).await;
        }
        let pay_outstanding = p.shared.lock().unwrap().pending.iter().any(|r| r.method == "pay");
        if let Some(rp) = early {
            if pay_outstanding {
                rep.violations.push(Violation::new(
                    "C02",
                    "answered_while_pay_command_running",
                    format!("after {:?} the HTLC was answered {} while the node's pay command for it is still running (options: mpp 1 s, payment timeout {} s)", t0.elapsed(), rp["result"], c.pay_timeout),
                ));
            } else {
                rep.inconclusive = true;
            }
        } else {
            p.shared.lock().unwrap().hold_pays = false;
            match p.wait_reply(&json!("slow"), 8000).await {
                Some(rp) if rp["result"]["result"] == "resolve" => {}
                Some(rp) => rep.violations.push(Violation::new("C02", "not_settled_after_slow_pay_completed", format!("pay completed after {} s; HTLC answered {}", c.hold_s, rp["result"]))),
                None => {
                    if let Some(m) = p.panicked() {
                        rep.violations.push(Violation::new("C06", "panic_in_binary", m));
                    } else {
                        rep.inconclusive = true;
                    }
                }
            }
        }
        p.stop().await;
        Ok(())
    });
    if let Err(e) = res {
        rep.inconclusive = true;
        rep.classes.push(format!("infrastructure: {}", e.chars().take(80).collect::<String>()));
    }
    rep.nontrivial = true;
    rep.fingerprint = fp_of(&(c.hold_s, c.pay_timeout, c.xpay));
    rep.classes.push("e2e_slow_pay".into());
    rep.sample = Some(serde_json::to_value(c).unwrap());
    rep
}

// ------------------------------------------------------------------ C14: another hash while a payment is in flight, through the binary

#[derive(Clone, Debug, Serialize, Deserialize)]
pub struct IsolationCase {
    /// requests of other payment hashes sent while the pay command of the first hash is running
    pub others: u8,
    pub trace_log: bool,
}

/// The node leaves `pay` for hash A unanswered. Plain forwards of other hashes sent meanwhile must be answered
/// before A is. Decided by ORDER, not by a time limit: a missing reply counts only if the plugin process is idle.
fn run_isolation(c: &IsolationCase) -> CaseReport {
    let mut rep = CaseReport::default();
    if bin_missing() {
        rep.inconclusive = true;
        return rep;
    }
    let cfg = Cfg { mpp_timeout_s: 1, ..Cfg::default() };
    let pay = PaymentSpec { preimage_hi: 0, preimage: 0x36, invoice_amount: Some(1_000_000), tlv_amount: 1_000_000, hints: Hints::None, explicit_payee: false, recipient_ok: true, drain_parts: 1 };
    let need = needed_total(&cfg, 1_000_000);
    let h = HtlcSpec { pay: 0, hash_of: None, amount_msat: need, total_msat: Some(need), forward_msat: Some(need), cltv_expiry: 1000 + 1200, cltv_rel: 1100, forward: false, meta: Meta::Normal, extra: vec![], raw_payload: None };
    let scn = crate::props::c13::blank(vec![pay.clone()], vec![h], 1);
    let r = rt();
    let res: Result<(), String> = r.block_on(async {
        let started = Proc::start(default_options(), if c.trace_log { Some("trace") } else { None }, PayMode::Complete, 1000, &[pay.preimage_bytes()]).await?;
        let mut p = match started {
            Started::Running(p) => p,
            Started::Refused { stderr, .. } => return Err(format!("refused: {stderr}")),
        };
        p.shared.lock().unwrap().hold_pays = true;
        p.send_htlc(json!("A"), &scn.render(0)).await;
        let t0 = std::time::Instant::now();
        while t0.elapsed() < Duration::from_secs(10) && !p.shared.lock().unwrap().pending.iter().any(|r| r.method == "pay") {
            tokio::time::sleep(Duration::from_millis(20)).await;
        }
        if !p.shared.lock().unwrap().pending.iter().any(|r| r.method == "pay") {
            rep.inconclusive = true;
            p.stop().await;
            return Ok(());
        }
        for i in 0..c.others {
            let fwd = json!({"onion": {"payload": "", "short_channel_id": "1x1x1", "forward_msat": 1000 + i as u64}, "htlc": {"short_channel_id": "2x2x2", "id": 100 + i as u64, "amount_msat": 2000, "cltv_expiry": 1500, "cltv_expiry_relative": 500, "payment_hash": format!("{:02x}", 0xb0 + i).repeat(32)}});
            p.send_htlc(json!(format!("B{i}")), &fwd).await;
        }
        let mut missing = vec![];
        for i in 0..c.others {
            if p.wait_reply(&json!(format!("B{i}")), 10_000).await.is_none() {
                missing.push(i);
            }
        }
        if !missing.is_empty() {
            let a_answered = p.reply(&json!("A")).is_some();
            let idle = match p.child.id() {
                Some(pid) if matches!(p.child.try_wait(), Ok(None)) => {
                    let a = cpu_ticks(pid);
                    tokio::time::sleep(Duration::from_secs(3)).await;
                    a.is_some() && a == cpu_ticks(pid)
                }
                _ => false,
            };
            let still: Vec<u8> = missing.iter().cloned().filter(|i| p.reply(&json!(format!("B{i}"))).is_none()).collect();
            if let Some(m) = p.panicked() {
                rep.violations.push(Violation::new("C06", "panic_in_binary", m));
            } else if idle && !still.is_empty() && !a_answered {
                rep.violations.push(Violation::new(
                    "C14",
                    "reply_for_other_hash_withheld_while_payment_in_flight",
                    format!("{} plain forwards of other payment hashes got no reply while the pay command of an earlier HTLC is running at the node; the plugin process is idle (no CPU time in 3 s), so the replies are not late but withheld", still.len()),
                ));
            } else {
                rep.inconclusive = true;
            }
        }
        p.shared.lock().unwrap().hold_pays = false;
        let _ = p.wait_reply(&json!("A"), 8000).await;
        if rep.violations.iter().any(|v| v.prop == "C14") {
            // corroboration: do the withheld replies appear once A is answered?
            let after: usize = (0..c.others).filter(|i| p.reply(&json!(format!("B{i}"))).is_some()).count();
            rep.classes.push(format!("withheld_replies_released_after_first_hash_answered:{}", after == c.others as usize));
        }
        p.stop().await;
        Ok(())
    });
    if let Err(e) = res {
        rep.inconclusive = true;
        rep.classes.push(format!("infrastructure: {}", e.chars().take(80).collect::<String>()));
    }
    rep.nontrivial = !rep.inconclusive;
    rep.fingerprint = fp_of(&(c.others, c.trace_log));
    rep.classes.push("e2e_other_hash_while_pay_in_flight".into());
    rep.sample = Some(serde_json::to_value(c).unwrap());
    rep
}

pub fn replay_isolation(c: Value) -> Option<CaseReport> {
    Some(run_isolation(&serde_json::from_value(c).ok()?))
}

pub fn c14_e2e(s: &mut Session) {
    e2e_workers_note(s);
    booked(s, |s| {
        s.assume("E2E isolation phase: a missing reply for another hash is a violation only if the plugin process is idle (no CPU time used in 3 s) while the first hash's pay command is still running; otherwise inconclusive");
        s.regress::<IsolationCase, _>("e2e-isolation", run_isolation);
        let cases = vec![IsolationCase { others: 1, trace_log: false }, IsolationCase { others: 5, trace_log: true }, IsolationCase { others: 40, trace_log: false }];
        s.enumerate("e2e-other-hash-while-pay-in-flight", "e2e-isolation", cases, run_isolation);
    });
}

// ------------------------------------------------------------------ C06: long non-ASCII error texts from the node

#[derive(Clone, Debug, Serialize, Deserialize)]
pub struct ErrText {
    /// ASCII characters in front (shifts the byte offsets of what follows)
    pub prefix: u8,
    /// 0 = 2-byte, 1 = 3-byte, 2 = 4-byte characters
    pub width: u8,
    pub chars: u16,
    pub trace_log: bool,
}

/// lightningd answers the state read with an error whose message is long and not ASCII (a localized / quoted text).
/// The plugin logs such errors; every HTLC must still be answered and nothing may panic.
fn run_err_text(c: &ErrText) -> CaseReport {
    let mut rep = CaseReport::default();
    if bin_missing() {
        rep.inconclusive = true;
        return rep;
    }
    let cfg = Cfg { mpp_timeout_s: 1, ..Cfg::default() };
    let need = needed_total(&cfg, 1_000_000);
    let payments: Vec<PaymentSpec> = (0..3).map(|i| PaymentSpec { preimage_hi: 0, preimage: 0x40 + i, invoice_amount: Some(1_000_000), tlv_amount: 1_000_000, hints: Hints::None, explicit_payee: false, recipient_ok: true, drain_parts: 1 }).collect();
    let htlcs: Vec<HtlcSpec> = (0..3).map(|i| HtlcSpec { pay: i, hash_of: None, amount_msat: need, total_msat: Some(need), forward_msat: Some(need), cltv_expiry: 1000 + 1200, cltv_rel: 1100, forward: false, meta: Meta::Normal, extra: vec![], raw_payload: None }).collect();
    let scn = crate::props::c13::blank(payments, htlcs, 1);
    let ch = ["\u{e9}", "\u{20ac}", "\u{1f600}"][c.width as usize % 3];
    let text = format!("{}{}", "x".repeat(c.prefix as usize), ch.repeat(c.chars as usize));
    let r = rt();
    let res: Result<(), String> = r.block_on(async {
        let mut p = match Proc::start(default_options(), if c.trace_log { Some("trace") } else { None }, PayMode::FailFast, 1000, &[]).await? {
            Started::Running(p) => p,
            Started::Refused { stderr, .. } => return Err(format!("refused: {stderr}")),
        };
        p.shared.lock().unwrap().err_text = Some(text.clone());
        for i in 0..3 {
            p.send_htlc(json!(format!("e{i}")), &scn.render(i)).await;
            tokio::time::sleep(Duration::from_millis(30)).await;
        }
        let mut missing = 0;
        for i in 0..3 {
            match p.wait_reply(&json!(format!("e{i}")), 8000).await {
                Some(rp) if rp.get("result").is_some() => {}
                Some(rp) => rep.violations.push(Violation::new("C06", "error_reply_to_hook", format!("htlc_accepted answered with {rp}"))),
                None => missing += 1,
            }
        }
        if let Some(m) = p.panicked() {
            rep.violations.push(Violation::new("C06", "panic_in_binary", format!("after the node answered listdatastore with an error message of {} bytes ({} ASCII + {} x {}-byte characters); stderr of the plugin: {m}", text.len(), c.prefix, c.chars, ch.len())).with_sig(json!({"kind":"panic_in_binary"})));
        } else if missing > 0 {
            if matches!(p.child.try_wait(), Ok(Some(_))) {
                rep.violations.push(Violation::new("C06", "plugin_exited_with_unanswered_requests", format!("{missing} of 3 htlc_accepted calls unanswered, process gone")));
            } else {
                rep.inconclusive = true;
            }
        }
        p.stop().await;
        Ok(())
    });
    if let Err(e) = res {
        rep.inconclusive = true;
        rep.classes.push(format!("infrastructure: {}", e.chars().take(80).collect::<String>()));
    }
    rep.nontrivial = !rep.inconclusive;
    rep.fingerprint = fp_of(&(c.prefix, c.width, c.chars, c.trace_log));
    rep.classes.push(format!("e2e_non_ascii_error_text_{}_bytes", if text.len() > 1024 { "over_1k" } else { "up_to_1k" }));
    rep.sample = Some(serde_json::to_value(c).unwrap());
    rep
}

pub fn replay_err_text(c: Value) -> Option<CaseReport> {
    Some(run_err_text(&serde_json::from_value(c).ok()?))
}

// ------------------------------------------------------------------ C02: notifications the plugin subscribed to, while a payment is in flight

#[derive(Clone, Debug, Serialize, Deserialize)]
pub struct InFlightNotify {
    /// HTLCs replayed for the in-flight payment (each carries 1/3 of what is needed: never "ready")
    pub replayed: u8,
    pub pending_parts: u8,
}

/// An earlier run left a Pending record and a pending outgoing part. HTLCs are replayed; lightningd then sends every
/// notification topic the plugin subscribed to (besides block_added), e.g. `shutdown`. As long as the part is pending
/// no HTLC may be failed; when it completes they are settled.
fn run_inflight_notify(c: &InFlightNotify) -> CaseReport {
    let mut rep = CaseReport::default();
    if bin_missing() {
        rep.inconclusive = true;
        return rep;
    }
    let cfg = Cfg { mpp_timeout_s: 1, ..Cfg::default() };
    let pay = PaymentSpec { preimage_hi: 0, preimage: 0x37, invoice_amount: Some(1_000_000), tlv_amount: 1_000_000, hints: Hints::None, explicit_payee: false, recipient_ok: true, drain_parts: 1 };
    let need = needed_total(&cfg, 1_000_000);
    let n = c.replayed.max(1) as usize;
    let htlcs: Vec<HtlcSpec> = (0..n).map(|_| HtlcSpec { pay: 0, hash_of: None, amount_msat: need / 3, total_msat: Some(need), forward_msat: Some(need / 3), cltv_expiry: 1000 + 1200, cltv_rel: 1100, forward: false, meta: Meta::Normal, extra: vec![], raw_payload: None }).collect();
    let scn = crate::props::c13::blank(vec![pay.clone()], htlcs, 1);
    let r = rt();
    let res: Result<(), String> = r.block_on(async {
        let mut p = match Proc::start(default_options(), None, PayMode::Complete, 1000, &[pay.preimage_bytes()]).await? {
            Started::Running(p) => p,
            Started::Refused { stderr, .. } => return Err(format!("refused: {stderr}")),
        };
        {
            let mut g = p.shared.lock().unwrap();
            let s = &mut *g;
            s.hold_waitsendpay = true;
            let h = hex::encode(pay.hash());
            let now = std::time::SystemTime::now().duration_since(std::time::UNIX_EPOCH).map(|d| d.as_secs()).unwrap_or(0);
            s.node.datastore.insert(vec!["trampoline".into(), "payments".into(), h.clone(), "state".into()], (json!({"Pending": {"attempt_id": "1", "attempt_time_seconds": now}}).to_string(), 0));
            s.node.datastore.insert(vec!["trampoline".into(), "payments".into(), h, "attempts".into(), "1".into()], (json!({"amount_msat": 1_000_000u64, "bolt11": build_invoice(&pay, InvKind::Normal), "completed": false, "success": false}).to_string(), 0));
            let g = s.node.new_group();
            for _ in 0..c.pending_parts.max(1) {
                s.node.add_part(pay.hash(), g, None);
            }
        }
        for i in 0..n {
            p.send_htlc(json!(format!("r{i}")), &scn.render(i)).await;
        }
        tokio::time::sleep(Duration::from_millis(400)).await;
        let topics: Vec<String> = p.subscriptions().into_iter().filter(|t| t != "block_added").collect();
        for t in &topics {
            let params = if t == "shutdown" { json!({}) } else { json!({ t.as_str(): {} }) };
            p.send(&json!({"jsonrpc":"2.0","method": t, "params": params})).await;
        }
        rep.classes.push(format!("subscribed_topics_sent:{}", topics.len()));
        // the part is pending all the while
        let t0 = std::time::Instant::now();
        while t0.elapsed() < Duration::from_millis(2500) {
            for i in 0..n {
                if let Some(rp) = p.reply(&json!(format!("r{i}"))) {
                    if rp["result"]["result"] == "fail" {
                        rep.violations.push(Violation::new(
                            "C02",
                            "failed_while_part_pending_through_binary",
                            format!("replayed HTLC {i} of a payment with a Pending record and {} pending outgoing part(s) was failed ({}) {:?} after delivery (notifications sent meanwhile: {:?})", c.pending_parts.max(1), rp["result"]["failure_message"], t0.elapsed(), topics),
                        ));
                    }
                }
            }
            if !rep.violations.is_empty() {
                break;
            }
            tokio::time::sleep(Duration::from_millis(50)).await;
        }
        if rep.violations.is_empty() && matches!(p.child.try_wait(), Ok(None)) {
            // the interrupted attempt completes: the HTLCs are settled with its preimage
            {
                let mut g = p.shared.lock().unwrap();
                for part in g.node.parts.iter_mut() {
                    part.status = PartStatus::Complete;
                }
            }
            for i in 0..n {
                match p.wait_reply(&json!(format!("r{i}")), 8000).await {
                    Some(rp) if rp["result"]["result"] == "resolve" => {}
                    Some(rp) => rep.violations.push(Violation::new("C02", "not_settled_after_interrupted_attempt_completed", format!("replayed HTLC {i} answered {}", rp["result"]))),
                    None => {
                        if let Some(m) = p.panicked() {
                            rep.violations.push(Violation::new("C06", "panic_in_binary", m));
                        } else {
                            rep.inconclusive = true;
                        }
                    }
                }
            }
        }
        p.stop().await;
        Ok(())
    });
    if let Err(e) = res {
        rep.inconclusive = true;
        rep.classes.push(format!("infrastructure: {}", e.chars().take(80).collect::<String>()));
    }
    rep.nontrivial = !rep.inconclusive;
    rep.fingerprint = fp_of(&(c.replayed, c.pending_parts));
    rep.classes.push("e2e_replay_onto_in_flight_payment".into());
    rep.sample = Some(serde_json::to_value(c).unwrap());
    rep
}

pub fn replay_inflight_notify(c: Value) -> Option<CaseReport> {
    Some(run_inflight_notify(&serde_json::from_value(c).ok()?))
}

pub fn c02_e2e_quick(s: &mut Session) {
    e2e_workers_note(s);
    booked(s, |s| {
        s.regress::<InFlightNotify, _>("e2e-inflight-notify", run_inflight_notify);
        let cases = vec![InFlightNotify { replayed: 1, pending_parts: 1 }, InFlightNotify { replayed: 3, pending_parts: 2 }];
        s.enumerate("e2e-replay-onto-in-flight-payment", "e2e-inflight-notify", cases, run_inflight_notify);
    });
}

// ------------------------------------------------------------------ C05/C08: a node upgraded/restarted with its datastore in place

#[derive(Clone, Debug, Serialize, Deserialize)]
pub struct PaidEarlier {
    /// the payment was made this many days ago (attempt ids are nanoseconds since the epoch)
    pub age_days: u32,
    /// other hashes with old failed attempts lying around in the datastore
    pub other_failed: u8,
}

/// The datastore holds what earlier runs of the pinned release wrote: a paid invoice (Succeeded record, attempt
/// completed+success, complete part on the node) and failed attempts of other hashes. The binary starts on top
/// of it (everything main() does at startup runs), then an HTLC for the paid invoice arrives.
fn run_paid_earlier(c: &PaidEarlier, prop: &'static str) -> CaseReport {
    let mut rep = CaseReport::default();
    if bin_missing() {
        rep.inconclusive = true;
        return rep;
    }
    let cfg = Cfg { mpp_timeout_s: 1, ..Cfg::default() };
    let pay = PaymentSpec { preimage_hi: 0, preimage: 0x38, invoice_amount: Some(1_000_000), tlv_amount: 1_000_000, hints: Hints::None, explicit_payee: false, recipient_ok: true, drain_parts: 1 };
    let need = needed_total(&cfg, 1_000_000);
    let h = HtlcSpec { pay: 0, hash_of: None, amount_msat: need, total_msat: Some(need), forward_msat: Some(need), cltv_expiry: 1000 + 1200, cltv_rel: 1100, forward: false, meta: Meta::Normal, extra: vec![], raw_payload: None };
    let scn = crate::props::c13::blank(vec![pay.clone()], vec![h], 1);
    let now_ns = std::time::SystemTime::now().duration_since(std::time::UNIX_EPOCH).map(|d| d.as_nanos()).unwrap_or(0);
    let day_ns: u128 = 86_400 * 1_000_000_000;
    let paid_at = now_ns.saturating_sub(c.age_days as u128 * day_ns);
    let key = |hash: &[u8; 32], tail: &[&str]| {
        let mut k = vec!["trampoline".to_string(), "payments".to_string(), hex::encode(hash)];
        k.extend(tail.iter().map(|s| s.to_string()));
        k
    };
    let mut recs = vec![
        (key(&pay.hash(), &["state"]), json!({"Succeeded": {"preimage": pay.preimage_bytes().to_vec()}}).to_string()),
        (key(&pay.hash(), &["attempts", &paid_at.to_string()]), json!({"amount_msat": 1_000_000u64, "bolt11": build_invoice(&pay, InvKind::Normal), "completed": true, "success": true}).to_string()),
    ];
    for i in 0..c.other_failed {
        let other = PaymentSpec { preimage_hi: 0, preimage: 0x80 + i, ..pay.clone() };
        recs.push((key(&other.hash(), &["state"]), "\"Free\"".to_string()));
        let at = now_ns.saturating_sub((c.age_days as u128 + 1 + i as u128) * day_ns);
        recs.push((key(&other.hash(), &["attempts", &at.to_string()]), json!({"amount_msat": 1_000_000u64, "bolt11": build_invoice(&other, InvKind::Normal), "completed": true, "success": false}).to_string()));
    }
    let state_key = key(&pay.hash(), &["state"]);
    let r = rt();
    let res: Result<(), String> = r.block_on(async {
        PRESET.with(|p| *p.borrow_mut() = (recs.clone(), vec![pay.hash()]));
        let started = Proc::start(default_options(), None, PayMode::Complete, 1000, &[pay.preimage_bytes()]).await;
        PRESET.with(|p| *p.borrow_mut() = (vec![], vec![]));
        let mut p = match started? {
            Started::Running(p) => p,
            Started::Refused { stderr, .. } => return Err(format!("refused: {stderr}")),
        };
        // give startup work (whatever main() does with the datastore) time to finish
        tokio::time::sleep(Duration::from_millis(500)).await;
        let stored = p.shared.lock().unwrap().node.datastore.get(&state_key).map(|x| x.0.clone());
        if !stored.as_deref().map(|s| s.contains("Succeeded")).unwrap_or(false) {
            rep.violations.push(Violation::new(
                "C08",
                "record_of_completed_payment_gone_after_startup",
                format!("the node holds a complete outgoing part for the hash, the datastore held its Succeeded record (payment made {} days ago); after the plugin started the state record is {:?}", c.age_days, stored),
            ));
        }
        p.send_htlc(json!("late"), &scn.render(0)).await;
        let ans = p.wait_reply(&json!("late"), 8000).await;
        let pays = p.rpcs().into_iter().filter(|r| r.0 == "pay").count();
        if pays > 0 {
            rep.violations.push(Violation::new("C05", "paid_invoice_paid_again_after_restart", format!("invoice paid {} days ago (complete part on the node): {pays} new pay request(s) after a restart; HTLC answered {:?}", c.age_days, ans.as_ref().map(|a| a["result"].clone()))));
        }
        match ans {
            Some(a) if a["result"]["result"] == "resolve" && a["result"]["payment_key"] == json!(hex::encode(pay.preimage_bytes())) => {}
            Some(a) => {
                if pays == 0 {
                    rep.violations.push(Violation::new("C05", "late_htlc_of_paid_invoice_not_settled_from_record", format!("answered {}", a["result"])));
                }
            }
            None => {
                if let Some(m) = p.panicked() {
                    rep.violations.push(Violation::new("C06", "panic_in_binary", m));
                } else {
                    rep.inconclusive = true;
                }
            }
        }
        p.stop().await;
        Ok(())
    });
    if let Err(e) = res {
        rep.inconclusive = true;
        rep.classes.push(format!("infrastructure: {}", e.chars().take(80).collect::<String>()));
    }
    let _ = prop;
    rep.nontrivial = !rep.inconclusive;
    rep.fingerprint = fp_of(&(c.age_days, c.other_failed));
    rep.classes.push(format!("e2e_start_on_datastore_of_earlier_runs_paid_{}_days_ago", c.age_days));
    rep.sample = Some(serde_json::to_value(c).unwrap());
    rep
}

pub fn replay_paid_earlier(prop: &'static str, c: Value) -> Option<CaseReport> {
    Some(run_paid_earlier(&serde_json::from_value(c).ok()?, prop))
}

pub fn paid_earlier_e2e(s: &mut Session, prop: &'static str) {
    e2e_workers_note(s);
    booked(s, |s| {
        s.assume("E2E: records written by the release this harness is pinned to (stored format of that commit, attempt ids = nanoseconds since the epoch) belong to the input domain: the binary is started on a datastore earlier runs filled");
        s.regress::<PaidEarlier, _>("e2e-paid-earlier", move |c| run_paid_earlier(c, prop));
        let cases = vec![PaidEarlier { age_days: 0, other_failed: 0 }, PaidEarlier { age_days: 40, other_failed: 5 }, PaidEarlier { age_days: 400, other_failed: 40 }, PaidEarlier { age_days: 3, other_failed: 100 }];
        s.enumerate("e2e-start-on-datastore-of-earlier-runs", "e2e-paid-earlier", cases, move |c| run_paid_earlier(c, prop));
    });
}

pub fn c02_e2e(s: &mut Session) {
    e2e_workers_note(s);
    booked(s, |s| {
        s.regress::<SlowPay, _>("e2e-slow-pay", run_slow_pay);
        let cases = vec![
            SlowPay { hold_s: 14, pay_timeout: 0, xpay: false },
            SlowPay { hold_s: 14, pay_timeout: 1, xpay: true },
            SlowPay { hold_s: 6, pay_timeout: 0, xpay: false },
            SlowPay { hold_s: 18, pay_timeout: 3, xpay: false },
        ];
        s.enumerate("e2e-slow-pay", "e2e-slow-pay", cases, run_slow_pay);
    });
}

pub fn replay_slow_pay(c: Value) -> Option<CaseReport> {
    Some(run_slow_pay(&serde_json::from_value(c).ok()?))
}

// ------------------------------------------------------------------ C20: the periodic poll through the binary

#[derive(Clone, Debug, Serialize, Deserialize)]
pub struct PollCase {
    pub start: u32,
    /// the node's height rises by this much without any block_added notification ...
    pub raise: u32,
    /// ... this many ms after the plugin's init
    pub raise_after_ms: u64,
    pub expiry_above: u32,
}

/// Notifications are lost: the binary must query the node again within one poll interval (60 s, real time) and
/// use what it learns. Upper bounds in real time are only asserted when the process is demonstrably idle.
fn run_poll(c: &PollCase) -> CaseReport {
    let mut rep = CaseReport::default();
    if bin_missing() {
        rep.inconclusive = true;
        return rep;
    }
    let new_h = c.start + c.raise;
    let cfg = Cfg { mpp_timeout_s: 1, ..Cfg::default() };
    let pay = PaymentSpec { preimage_hi: 0, preimage: 0x34, invoice_amount: Some(1_000_000), tlv_amount: 1_000_000, hints: Hints::None, explicit_payee: false, recipient_ok: false, drain_parts: 0 };
    let need = needed_total(&cfg, 1_000_000);
    let expiry = new_h + c.expiry_above;
    let h = HtlcSpec { pay: 0, hash_of: None, amount_msat: need, total_msat: Some(need), forward_msat: Some(need), cltv_expiry: expiry, cltv_rel: 1100, forward: false, meta: Meta::Normal, extra: vec![], raw_payload: None };
    let scn = crate::props::c13::blank(vec![pay], vec![h], 1);
    let r = rt();
    let res: Result<(), String> = r.block_on(async {
        let mut p = match Proc::start(default_options(), None, PayMode::FailFast, c.start, &[]).await? {
            Started::Running(p) => p,
            Started::Refused { stderr, .. } => return Err(format!("refused: {stderr}")),
        };
        let t0 = std::time::Instant::now();
        tokio::time::sleep(Duration::from_millis(c.raise_after_ms)).await;
        let polls_before = p.getinfo_count();
        p.shared.lock().unwrap().node.height = new_h;
        let mut polled = false;
        while t0.elapsed() < Duration::from_secs(75) {
            if p.getinfo_count() > polls_before {
                polled = true;
                break;
            }
            if matches!(p.child.try_wait(), Ok(Some(_))) {
                break;
            }
            tokio::time::sleep(Duration::from_millis(200)).await;
        }
        if !polled {
            let exited = matches!(p.child.try_wait(), Ok(Some(_)));
            let idle = match p.child.id() {
                Some(pid) if !exited => {
                    let a = cpu_ticks(pid);
                    tokio::time::sleep(Duration::from_secs(3)).await;
                    a.is_some() && a == cpu_ticks(pid)
                }
                _ => false,
            };
            let again = p.getinfo_count() > polls_before;
            if let Some(m) = p.panicked() {
                rep.violations.push(Violation::new("C20", "panic_in_binary", m));
            } else if idle && !again {
                rep.violations.push(Violation::new(
                    "C20",
                    "binary_never_polls_again",
                    format!("the node's height rose from {} to {new_h} without a notification {} ms after init; {:.0} s after init the plugin has not queried the node again (poll interval 60 s) and its process is idle (no CPU time used in 3 s)", c.start, c.raise_after_ms, t0.elapsed().as_secs_f64()),
                ));
            } else {
                rep.inconclusive = true;
            }
            p.stop().await;
            return Ok(());
        }
        // the reply has to travel back and be applied
        tokio::time::sleep(Duration::from_millis(500)).await;
        p.send_htlc(json!("x"), &scn.render(0)).await;
        if p.wait_reply(&json!("x"), 10_000).await.is_none() {
            if let Some(m) = p.panicked() {
                rep.violations.push(Violation::new("C20", "panic_in_binary", m));
            } else {
                rep.inconclusive = true;
            }
        }
        match p.rpcs().into_iter().find(|r| r.0 == "pay") {
            None => rep.inconclusive = true,
            Some((_, params)) => {
                let want = (expiry.saturating_sub(new_h).saturating_sub(34)).min(1008) as u64;
                let got = params["maxdelay"].as_u64();
                if got != Some(want) {
                    rep.violations.push(Violation::new(
                        "C20",
                        "binary_does_not_use_polled_height",
                        format!("startup height {}, node at {new_h} when polled: pay maxdelay {got:?}, expected {want} (expiry {expiry} - {new_h} - 34, capped at 1008)", c.start),
                    ));
                }
            }
        }
        p.stop().await;
        Ok(())
    });
    if let Err(e) = res {
        rep.inconclusive = true;
        rep.classes.push(format!("infrastructure: {}", e.chars().take(80).collect::<String>()));
    }
    rep.nontrivial = !rep.inconclusive;
    rep.fingerprint = fp_of(&(c.start, c.raise, c.raise_after_ms, c.expiry_above));
    rep.classes.push("e2e_poll_after_lost_notifications".into());
    rep.sample = Some(serde_json::to_value(c).unwrap());
    rep
}

pub fn replay_poll(c: Value) -> Option<CaseReport> {
    Some(run_poll(&serde_json::from_value(c).ok()?))
}

pub fn c20_e2e(s: &mut Session) {
    e2e_workers_note(s);
    booked(s, |s| {
        s.regress::<HeightCase, _>("e2e-height", run_height);
        s.search("e2e-binary-block-added", "e2e-height", 6, height_case, run_height);
        s.enumerate("e2e-binary-block-added-burst", "e2e-height", vec![HeightCase { start: 500, blocks: vec![], expiry_above: 900, getinfo_delay_ms: 0, burst: 100 }, HeightCase { start: 2000, blocks: vec![2003], expiry_above: 500, getinfo_delay_ms: 0, burst: 250 }], run_height);
        s.assume("E2E poll phase: real time; 'the binary never polls again' is reported only if no getinfo arrived within 75 s of init (interval 60 s) AND the process used no CPU time for 3 s (idle, not starved); otherwise inconclusive");
        // two processes side by side (about 62 s of wall clock, mostly idle waiting)
        let mut cases = vec![PollCase { start: 1000, raise: 7, raise_after_ms: 2_000, expiry_above: 700 }, PollCase { start: 4000, raise: 300, raise_after_ms: 30_000, expiry_above: 500 }];
        if s.tier == Tier::Thorough {
            cases.push(PollCase { start: 120, raise: 1, raise_after_ms: 58_000, expiry_above: 45 });
            cases.push(PollCase { start: 777, raise: 2000, raise_after_ms: 0, expiry_above: 2000 });
        }
        s.enumerate("e2e-binary-poll", "e2e-poll", cases, run_poll);
    });
}

pub fn replay_height(c: Value) -> Option<CaseReport> {
    Some(run_height(&serde_json::from_value(c).ok()?))
}
