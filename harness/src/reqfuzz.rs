//! Byte-driven executor for C06 shared by the libFuzzer target `request` and
//! by the harness (replay of crash artifacts): bytes -> configuration, 1-6
//! htlc_accepted requests (raw payload bytes / raw metadata / well-formed
//! trampoline requests / forwards) and the answers of in-memory stub
//! collaborators; the real `HtlcManager` runs on a paused runtime.
//! Oracle: every call completes exactly once with a serialisable
//! continue/fail/resolve and nothing panics.
//!
//! Known finding K2 (todo!() when wait_payment fails on the restart path) is
//! excluded by construction: the stub `wait_payment` never returns Err.
use crate::block_watcher::BlockProvider;
use crate::email::{NotificationService, NotifyPaymentFailedRequest};
use crate::htlc_manager::{HtlcManager, HtlcManagerParams};
use crate::messages::{HtlcAcceptedRequest, TrampolineInfo, TrampolineRoutingPolicy};
use crate::payment_provider::{PaymentProvider, PaymentRequest};
use crate::store::{AttemptId, Datastore, PaymentState};
use anyhow::{anyhow, Result};
use lightning_invoice::{Currency, InvoiceBuilder, PaymentSecret};
use secp256k1::hashes::{sha256, Hash};
use secp256k1::{PublicKey, Secp256k1, SecretKey};
use serde_json::{json, Value};
use std::sync::{Arc, Mutex, OnceLock};
use std::time::Duration;

struct Cursor<'a> {
    b: &'a [u8],
    i: usize,
}
impl<'a> Cursor<'a> {
    fn u8(&mut self) -> u8 {
        let v = self.b.get(self.i).cloned().unwrap_or(0);
        self.i += 1;
        v
    }
    fn u64(&mut self) -> u64 {
        let mut v = 0u64;
        let n = (self.u8() % 9) as usize;
        for _ in 0..n {
            v = (v << 8) | self.u8() as u64;
        }
        v
    }
    fn bytes(&mut self) -> Vec<u8> {
        let n = self.u8() as usize;
        let s = self.i.min(self.b.len());
        let e = (self.i + n).min(self.b.len());
        self.i += n;
        self.b[s..e].to_vec()
    }
}

#[derive(Clone, Copy, PartialEq)]
enum Stored {
    Free,
    Pending,
    Succeeded,
}

struct StubStore {
    state: Mutex<Stored>,
    fetch_err: bool,
    add_err: bool,
    mark_err: bool,
    preimage: Vec<u8>,
}

#[async_trait::async_trait]
impl Datastore for StubStore {
    async fn add_payment_attempt(&self, _t: &TrampolineInfo) -> Result<AttemptId> {
        tokio::task::yield_now().await;
        if self.add_err {
            return Err(anyhow!("stub: add_payment_attempt failed"));
        }
        *self.state.lock().unwrap() = Stored::Pending;
        Ok(AttemptId { attempt_id: "1".into(), state_generation: 0 })
    }
    async fn fetch_payment_info(&self, _t: &TrampolineInfo) -> Result<PaymentState> {
        tokio::task::yield_now().await;
        if self.fetch_err {
            return Err(anyhow!("stub: fetch failed"));
        }
        Ok(match *self.state.lock().unwrap() {
            Stored::Free => PaymentState::Free,
            Stored::Pending => PaymentState::Pending { attempt_id: AttemptId { attempt_id: "0".into(), state_generation: 0 }, attempt_time_seconds: 0 },
            Stored::Succeeded => PaymentState::Succeeded { preimage: self.preimage.clone() },
        })
    }
    async fn mark_failed(&self, _t: &TrampolineInfo, _a: &AttemptId) -> Result<()> {
        tokio::task::yield_now().await;
        if self.mark_err {
            return Err(anyhow!("stub: mark_failed failed"));
        }
        *self.state.lock().unwrap() = Stored::Free;
        Ok(())
    }
    async fn mark_succeeded(&self, _t: &TrampolineInfo, _a: &AttemptId, _p: Vec<u8>) -> Result<()> {
        tokio::task::yield_now().await;
        if self.mark_err {
            return Err(anyhow!("stub: mark_succeeded failed"));
        }
        *self.state.lock().unwrap() = Stored::Succeeded;
        Ok(())
    }
}

struct StubPay {
    pay_ok: bool,
    wait_some: bool,
    delay_ms: u64,
    preimage: Vec<u8>,
}

#[async_trait::async_trait]
impl PaymentProvider for StubPay {
    async fn pay(&self, _req: PaymentRequest) -> Result<Vec<u8>> {
        tokio::time::sleep(Duration::from_millis(self.delay_ms)).await;
        if self.pay_ok {
            Ok(self.preimage.clone())
        } else {
            Err(anyhow!("stub: pay failed"))
        }
    }
    async fn wait_payment(&self, _h: sha256::Hash) -> Result<Option<Vec<u8>>> {
        tokio::time::sleep(Duration::from_millis(self.delay_ms)).await;
        Ok(if self.wait_some { Some(self.preimage.clone()) } else { None })
    }
}

struct StubBlocks(u32);
#[async_trait::async_trait]
impl BlockProvider for StubBlocks {
    async fn current_height(&self) -> u32 {
        self.0
    }
}

struct NoNotif;
#[async_trait::async_trait]
impl NotificationService for NoNotif {
    async fn notify_payment_failed(&self, _r: NotifyPaymentFailedRequest) {}
}

fn local_key() -> PublicKey {
    PublicKey::from_secret_key(&Secp256k1::new(), &SecretKey::from_slice(&[0x31; 32]).unwrap())
}

/// three fixed invoices: fixed amount, amountless, fixed amount with the local node as last hint hop
fn invoices() -> &'static Vec<(String, [u8; 32])> {
    static INV: OnceLock<Vec<(String, [u8; 32])>> = OnceLock::new();
    INV.get_or_init(|| {
        let secp = Secp256k1::new();
        let sk = SecretKey::from_slice(&[0x42; 32]).unwrap();
        let mut out = vec![];
        for (i, amount) in [Some(1_000_000u64), None, Some(5_000u64)].into_iter().enumerate() {
            let pre = [0x50 + i as u8; 32];
            let hash = sha256::Hash::hash(&pre);
            let mut b = InvoiceBuilder::new(Currency::Bitcoin)
                .description("fuzz".into())
                .payment_hash(hash)
                .payment_secret(PaymentSecret([1; 32]))
                .duration_since_epoch(Duration::from_secs(1_700_000_000))
                .min_final_cltv_expiry_delta(144);
            if let Some(a) = amount {
                b = b.amount_milli_satoshis(a);
            }
            if i == 2 {
                b = b.private_route(lightning_invoice::RouteHint(vec![lightning_invoice::RouteHintHop {
                    src_node_id: local_key(),
                    short_channel_id: 1,
                    fees: lightning_invoice::RoutingFees { base_msat: 1, proportional_millionths: 1 },
                    cltv_expiry_delta: 10,
                    htlc_minimum_msat: None,
                    htlc_maximum_msat: None,
                }]));
            }
            let inv = b.build_signed(|h| secp.sign_ecdsa_recoverable(h, &sk)).unwrap();
            out.push((inv.to_string(), hash.to_byte_array()));
        }
        out
    })
}

fn put_bigsize(out: &mut Vec<u8>, v: u64) {
    if v < 0xfd {
        out.push(v as u8);
    } else if v <= 0xffff {
        out.push(0xfd);
        out.extend_from_slice(&(v as u16).to_be_bytes());
    } else {
        out.push(0xfe);
        out.extend_from_slice(&(v as u32).to_be_bytes());
    }
}

fn tlv(recs: &[(u64, Vec<u8>)]) -> Vec<u8> {
    let mut out = vec![];
    for (t, v) in recs {
        put_bigsize(&mut out, *t);
        put_bigsize(&mut out, v.len() as u64);
        out.extend_from_slice(v);
    }
    out
}

/// Decodes `data` and runs it. Err(description) = oracle violation.
pub fn run_one(data: &[u8]) -> Result<usize, String> {
    let mut c = Cursor { b: data, i: 0 };
    let flags = c.u8();
    let mpp = [0u64, 1, 60][(flags >> 1) as usize % 3];
    let policy = TrampolineRoutingPolicy { fee_base_msat: (c.u8() as u32) * 100, fee_proportional_millionths: [0u32, 1, 5000, u32::MAX][(flags >> 3) as usize % 4], cltv_expiry_delta: 40 };
    let stored = [Stored::Free, Stored::Free, Stored::Pending, Stored::Succeeded][(flags >> 5) as usize % 4];
    let s = c.u8();
    let n = 1 + (c.u8() % 6) as usize;
    let mut reqs: Vec<Value> = vec![];
    for k in 0..n {
        let kind = c.u8();
        let inv_i = (kind >> 4) as usize % 3;
        let (bolt11, hash) = invoices()[inv_i].clone();
        let amount = c.u64();
        let total = c.u64();
        let rel = c.u8() as i64 - 100 + 40;
        let payload: Vec<u8> = match kind % 6 {
            0 => c.bytes(),
            1 => {
                let meta = c.bytes();
                let body = tlv(&[(2, vec![1]), (16, meta)]);
                let mut p = vec![];
                put_bigsize(&mut p, body.len() as u64);
                p.extend(body);
                p
            }
            _ => {
                let mut recs = vec![(33001u64, bolt11.clone().into_bytes())];
                if kind & 8 != 0 || inv_i == 1 {
                    let a = c.u64();
                    let b = a.to_be_bytes();
                    let skip = b.iter().take_while(|x| **x == 0).count();
                    recs.push((33003, b[skip..].to_vec()));
                }
                let body = tlv(&[(2, vec![1]), (16, tlv(&recs))]);
                let mut p = vec![];
                put_bigsize(&mut p, body.len() as u64);
                p.extend(body);
                p
            }
        };
        let mut onion = json!({"payload": hex::encode(payload)});
        if kind % 6 == 5 {
            onion["short_channel_id"] = json!("1x2x3");
        }
        if kind & 4 == 0 {
            onion["forward_msat"] = json!(amount);
        }
        if kind & 2 != 0 {
            onion["total_msat"] = json!(total);
        }
        let hhash = if kind % 7 == 6 { [9u8; 32] } else { hash };
        reqs.push(json!({"onion": onion, "htlc": {"short_channel_id": "4x5x6", "id": k as u64, "amount_msat": amount.min(2_000_000_000_000_000_000 / 8), "cltv_expiry": 1000u32.saturating_add(rel.max(0) as u32), "cltv_expiry_relative": rel, "payment_hash": hex::encode(hhash)}}));
    }
    let preimage = [0x50u8; 32].to_vec();
    let rt = tokio::runtime::Builder::new_current_thread().enable_all().start_paused(true).build().map_err(|e| e.to_string())?;
    let res: Result<usize, String> = rt.block_on(async move {
        let mgr = Arc::new(HtlcManager::new(HtlcManagerParams {
            allow_self_route_hints: flags & 1 == 0,
            block_provider: Arc::new(StubBlocks(1000)),
            cltv_delta: 6,
            local_pubkey: local_key(),
            mpp_timeout: Duration::from_secs(mpp),
            notification_service: Arc::new(NoNotif),
            payment_provider: Arc::new(StubPay { pay_ok: s & 1 != 0, wait_some: s & 2 != 0, delay_ms: (s >> 4) as u64 * 7, preimage: preimage.clone() }),
            routing_policy: policy,
            store: Arc::new(StubStore { state: Mutex::new(stored), fetch_err: s & 4 != 0, add_err: s & 8 != 0, mark_err: s & 0x80 != 0, preimage }),
        }));
        let mut handles = vec![];
        let mut undeserialisable = 0;
        for r in reqs {
            let req: HtlcAcceptedRequest = match serde_json::from_value(r) {
                Ok(r) => r,
                Err(_) => {
                    undeserialisable += 1;
                    continue;
                }
            };
            let m = mgr.clone();
            handles.push(tokio::spawn(async move { serde_json::to_value(m.handle_htlc(&req).await) }));
            tokio::time::sleep(Duration::from_millis(3)).await;
        }
        // one MPP period plus the longest stub delay, twice: afterwards every call must be done
        tokio::time::sleep(Duration::from_secs(2 * mpp + 10)).await;
        let n = handles.len();
        for (i, h) in handles.into_iter().enumerate() {
            if !h.is_finished() {
                return Err(format!("call {i} still unanswered after two MPP periods"));
            }
            match h.await {
                Err(_) => return Err(format!("call {i} panicked")),
                Ok(Err(e)) => return Err(format!("call {i}: response not serialisable: {e}")),
                Ok(Ok(v)) => {
                    let r = v["result"].as_str().unwrap_or("");
                    if !matches!(r, "continue" | "fail" | "resolve") {
                        return Err(format!("call {i}: malformed response {v}"));
                    }
                }
            }
        }
        Ok(n + undeserialisable)
    });
    res
}
