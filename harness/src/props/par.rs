//! PAR — parallel stress of the real HtlcManager on a multi-thread runtime (as in
//! production) with in-memory stub collaborators. WORLD only interleaves at
//! `.await` points of one thread; here HTLCs of the same hash are released at
//! the same instant on several worker threads. Scheduling is not controlled:
//! a violation found here is real, absence is weak evidence.
use crate::block_watcher::BlockProvider;
use crate::email::{NotificationService, NotifyPaymentFailedRequest};
use crate::htlc_manager::{HtlcManager, HtlcManagerParams};
use crate::messages::{HtlcAcceptedRequest, TrampolineInfo, TrampolineRoutingPolicy};
use crate::payment_provider::{PaymentProvider, PaymentRequest};
use crate::runner::*;
use crate::scen::*;
use crate::store::{AttemptId, Datastore, PaymentState};
use anyhow::{anyhow, Result};
use proptest::prelude::*;
use secp256k1::hashes::{sha256, Hash};
use serde::{Deserialize, Serialize};
use serde_json::{json, Value};
use std::collections::HashMap;
use std::sync::{Arc, Mutex};
use std::time::Duration;

#[derive(Clone, Debug, Serialize, Deserialize)]
pub struct ParCase {
    /// per payment hash: number of HTLCs the funded set is split into (1..=6) and whether the recipient pays out
    pub sets: Vec<(u8, bool)>,
    pub yields: u8,
    /// schedule perturbation: a log call site of the plugin at source line L stalls its thread for
    /// `stall_us` when bit (L % 16) of the mask is set (a slow log sink; some of these lines are
    /// written while the table of payments is locked, so other handlers queue up behind the lock)
    #[serde(default)]
    pub stall_mask: u16,
    #[serde(default)]
    pub stall_us: u16,
    /// the order in which the handlers are spawned is a permutation derived from this
    #[serde(default)]
    pub order: u32,
    /// further HTLCs of sets whose recipient pays out: (set index, microseconds after the common release);
    /// they reach the plugin around the instant the payment is decided
    #[serde(default)]
    pub late: Vec<(u8, u16)>,
    /// set 0 consists of this many HTLCs instead, each carrying 1/funded_after of the total (rounded up): the
    /// set is funded after `funded_after` of them, the rest is surplus that arrives while the payment is made
    #[serde(default)]
    pub big: Option<(u16, u16)>,
}

struct Staller {
    mask: u16,
    us: u16,
}
impl tracing::Subscriber for Staller {
    fn enabled(&self, _: &tracing::Metadata<'_>) -> bool {
        true
    }
    fn new_span(&self, _: &tracing::span::Attributes<'_>) -> tracing::span::Id {
        tracing::span::Id::from_u64(1)
    }
    fn record(&self, _: &tracing::span::Id, _: &tracing::span::Record<'_>) {}
    fn record_follows_from(&self, _: &tracing::span::Id, _: &tracing::span::Id) {}
    fn event(&self, e: &tracing::Event<'_>) {
        if let Some(l) = e.metadata().line() {
            if self.us > 0 && (self.mask >> (l % 16)) & 1 == 1 {
                std::thread::sleep(Duration::from_micros(self.us as u64));
            }
        }
    }
    fn enter(&self, _: &tracing::span::Id) {}
    fn exit(&self, _: &tracing::span::Id) {}
}

pub fn par_strategy() -> impl Strategy<Value = ParCase> {
    (proptest::collection::vec((1u8..=6, prop_oneof![3 => Just(true), 1 => Just(false)]), 1..=10), 0u8..4, any::<u16>(), any::<u16>(), prop_oneof![Just(0u16), Just(300), Just(4000)], any::<u32>(), proptest::collection::vec((any::<u8>(), 0u16..8000), 0..8))
        .prop_map(|(sets, yields, m1, m2, stall_us, order, late)| {
            // construction, not rejection: late HTLCs are mapped onto the sets that pay out
            let good: Vec<u8> = (0..sets.len() as u8).filter(|i| sets[*i as usize].1).collect();
            let late = if good.is_empty() { vec![] } else { late.into_iter().map(|(k, d)| (good[(k as usize * good.len()) >> 8], d)).collect() };
            ParCase { sets, yields, stall_mask: m1 & m2, stall_us, order, late, big: None }
        })
}

#[derive(Default)]
struct PayStat {
    running: u32,
    calls: u32,
    completed: bool,
    overlapped: bool,
    after_complete: bool,
}

struct ParPay {
    stats: Mutex<HashMap<[u8; 32], PayStat>>,
    ok: HashMap<[u8; 32], (bool, [u8; 32])>,
    yields: u8,
}

#[async_trait::async_trait]
impl PaymentProvider for ParPay {
    async fn pay(&self, req: PaymentRequest) -> Result<Vec<u8>> {
        let h = req.payment_hash.to_byte_array();
        {
            let mut s = self.stats.lock().unwrap();
            let e = s.entry(h).or_default();
            if e.running > 0 {
                e.overlapped = true;
            }
            if e.completed {
                e.after_complete = true;
            }
            e.running += 1;
            e.calls += 1;
        }
        for _ in 0..=self.yields {
            tokio::task::yield_now().await;
        }
        tokio::time::sleep(Duration::from_millis(2)).await;
        let (ok, pre) = self.ok.get(&h).cloned().unwrap_or((false, [0; 32]));
        let mut s = self.stats.lock().unwrap();
        let e = s.entry(h).or_default();
        e.running -= 1;
        if ok {
            e.completed = true;
            Ok(pre.to_vec())
        } else {
            Err(anyhow!("stub: recipient rejected"))
        }
    }
    async fn wait_payment(&self, payment_hash: sha256::Hash) -> Result<Option<Vec<u8>>> {
        tokio::task::yield_now().await;
        let h = payment_hash.to_byte_array();
        let s = self.stats.lock().unwrap();
        Ok(match (s.get(&h).map(|e| e.completed).unwrap_or(false), self.ok.get(&h)) {
            (true, Some((_, pre))) => Some(pre.to_vec()),
            _ => None,
        })
    }
}

#[derive(Clone)]
enum Stored {
    Free,
    Pending,
    Succeeded(Vec<u8>),
}

struct ParStore {
    state: Mutex<HashMap<[u8; 32], Stored>>,
    yields: u8,
}

fn hash_of(t: &TrampolineInfo) -> [u8; 32] {
    t.invoice.payment_hash().to_byte_array()
}

#[async_trait::async_trait]
impl Datastore for ParStore {
    async fn add_payment_attempt(&self, t: &TrampolineInfo) -> Result<AttemptId> {
        for _ in 0..=self.yields {
            tokio::task::yield_now().await;
        }
        self.state.lock().unwrap().insert(hash_of(t), Stored::Pending);
        Ok(AttemptId { attempt_id: "1".into(), state_generation: 0 })
    }
    async fn fetch_payment_info(&self, t: &TrampolineInfo) -> Result<PaymentState> {
        for _ in 0..=self.yields {
            tokio::task::yield_now().await;
        }
        Ok(match self.state.lock().unwrap().get(&hash_of(t)).cloned().unwrap_or(Stored::Free) {
            Stored::Free => PaymentState::Free,
            Stored::Pending => PaymentState::Pending { attempt_id: AttemptId { attempt_id: "1".into(), state_generation: 0 }, attempt_time_seconds: 0 },
            Stored::Succeeded(p) => PaymentState::Succeeded { preimage: p },
        })
    }
    async fn mark_failed(&self, t: &TrampolineInfo, _a: &AttemptId) -> Result<()> {
        tokio::task::yield_now().await;
        self.state.lock().unwrap().insert(hash_of(t), Stored::Free);
        Ok(())
    }
    async fn mark_succeeded(&self, t: &TrampolineInfo, _a: &AttemptId, p: Vec<u8>) -> Result<()> {
        tokio::task::yield_now().await;
        self.state.lock().unwrap().insert(hash_of(t), Stored::Succeeded(p));
        Ok(())
    }
}

struct Blocks;
#[async_trait::async_trait]
impl BlockProvider for Blocks {
    async fn current_height(&self) -> u32 {
        1000
    }
}
struct NoNotif;
#[async_trait::async_trait]
impl NotificationService for NoNotif {
    async fn notify_payment_failed(&self, _r: NotifyPaymentFailedRequest) {}
}

const MPP_S: u64 = 10;

pub fn par_case(prop: &'static str) -> impl Fn(&ParCase) -> CaseReport + Sync {
    move |c: &ParCase| {
        let mut rep = CaseReport::default();
        // scenario used only to render requests
        let cfg = Cfg { mpp_timeout_s: 60, ..Cfg::default() };
        let need = needed_total(&cfg, 1_000_000);
        let payments: Vec<PaymentSpec> = (0..c.sets.len())
            .map(|i| PaymentSpec { preimage_hi: 0, preimage: 0x60 + i as u8, invoice_amount: Some(1_000_000), tlv_amount: 1_000_000, hints: Hints::None, explicit_payee: false, recipient_ok: c.sets[i].1, drain_parts: 1 })
            .collect();
        let mut htlcs = vec![];
        for (i, (parts, _)) in c.sets.iter().enumerate() {
            if let (0, Some((n, funded_after))) = (i, c.big) {
                let a = need.div_ceil(funded_after.max(1) as u64);
                for _ in 0..n {
                    htlcs.push(HtlcSpec { pay: 0, hash_of: None, amount_msat: a, total_msat: Some(need), forward_msat: Some(a), cltv_expiry: 1000 + 1200, cltv_rel: 1100, forward: false, meta: Meta::Normal, extra: vec![], raw_payload: None });
                }
                continue;
            }
            let n = *parts as u64;
            for k in 0..n {
                let a = if k + 1 == n { need - (need / n) * (n - 1) } else { need / n };
                htlcs.push(HtlcSpec { pay: i as u8, hash_of: None, amount_msat: a, total_msat: Some(need), forward_msat: Some(a), cltv_expiry: 1000 + 1200, cltv_rel: 1100, forward: false, meta: Meta::Normal, extra: vec![], raw_payload: None });
            }
        }
        let n_prompt = htlcs.len();
        for (set, _) in &c.late {
            let i = *set as usize % c.sets.len();
            if c.sets[i].1 {
                let a = need / 2 + 1;
                htlcs.push(HtlcSpec { pay: i as u8, hash_of: None, amount_msat: a, total_msat: Some(need), forward_msat: Some(a), cltv_expiry: 1000 + 1200, cltv_rel: 1100, forward: false, meta: Meta::Normal, extra: vec![], raw_payload: None });
            }
        }
        let late_delays: Vec<u16> = c.late.iter().filter(|(set, _)| c.sets[*set as usize % c.sets.len()].1).map(|l| l.1).collect();
        let scn = crate::props::c13::blank(payments.clone(), htlcs, 1);
        let late_reqs: Vec<(usize, Value, u16)> = (n_prompt..scn.htlcs.len()).map(|i| (scn.htlcs[i].pay as usize, scn.render(i), late_delays[i - n_prompt])).collect();
        let mut reqs: Vec<(usize, Value)> = (0..n_prompt).map(|i| (scn.htlcs[i].pay as usize, scn.render(i))).collect();
        if c.order != 0 {
            let mut keyed: Vec<(u64, (usize, Value))> = reqs.into_iter().enumerate().map(|(i, r)| (fp_of(&(c.order, i)), r)).collect();
            keyed.sort_by_key(|k| k.0);
            reqs = keyed.into_iter().map(|k| k.1).collect();
        }
        let ok: HashMap<[u8; 32], (bool, [u8; 32])> = payments.iter().map(|p| (p.hash(), (p.recipient_ok, p.preimage_bytes()))).collect();
        let pay = Arc::new(ParPay { stats: Mutex::new(HashMap::new()), ok, yields: c.yields });
        let store = Arc::new(ParStore { state: Mutex::new(HashMap::new()), yields: c.yields });
        let dispatch = tracing::Dispatch::new(Staller { mask: c.stall_mask, us: c.stall_us });
        let d2 = dispatch.clone();
        static CASE_NO: std::sync::atomic::AtomicU64 = std::sync::atomic::AtomicU64::new(0);
        let tname = format!("par-{}", CASE_NO.fetch_add(1, std::sync::atomic::Ordering::Relaxed));
        let t_start = std::time::Instant::now();
        let rt = tokio::runtime::Builder::new_multi_thread()
            .thread_name(tname.clone())
            .worker_threads(8)
            .on_thread_start(move || std::mem::forget(tracing::dispatcher::set_default(&d2)))
            .enable_all()
            .build()
            .unwrap();
        let _log_guard = tracing::dispatcher::set_default(&dispatch);
        let panics_before = crate::PANICS.with(|p| p.get());
        let pay2 = pay.clone();
        let out: Option<Vec<(usize, Value)>> = rt.block_on(async move {
            let mgr = Arc::new(HtlcManager::new(HtlcManagerParams {
                allow_self_route_hints: true,
                block_provider: Arc::new(Blocks),
                cltv_delta: 34,
                local_pubkey: local_pubkey(),
                mpp_timeout: Duration::from_secs(MPP_S),
                notification_service: Arc::new(NoNotif),
                payment_provider: pay2,
                routing_policy: TrampolineRoutingPolicy { fee_base_msat: 0, fee_proportional_millionths: 5000, cltv_expiry_delta: 1008 },
                store,
            }));
            let barrier = Arc::new(tokio::sync::Barrier::new(reqs.len() + late_reqs.len()));
            let mut tasks = vec![];
            for (pi, r, delay) in late_reqs {
                let mgr = mgr.clone();
                let b = barrier.clone();
                tasks.push(tokio::spawn(async move {
                    let req: HtlcAcceptedRequest = serde_json::from_value(r).unwrap();
                    b.wait().await;
                    tokio::time::sleep(Duration::from_micros(delay as u64)).await;
                    (pi, serde_json::to_value(mgr.handle_htlc(&req).await).unwrap())
                }));
            }
            for (pi, r) in reqs {
                let mgr = mgr.clone();
                let b = barrier.clone();
                tasks.push(tokio::spawn(async move {
                    let req: HtlcAcceptedRequest = serde_json::from_value(r).unwrap();
                    b.wait().await;
                    (pi, serde_json::to_value(mgr.handle_htlc(&req).await).unwrap())
                }));
            }
            let all = async {
                let mut v = vec![];
                for t in tasks {
                    match t.await {
                        Ok(x) => v.push(x),
                        Err(_) => v.push((usize::MAX, json!({"panic": true}))),
                    }
                }
                v
            };
            tokio::time::timeout(Duration::from_secs(30), all).await.ok()
        });
        rt.shutdown_background();
        let _ = panics_before;
        let wall = t_start.elapsed();
        let panics: Vec<String> = {
            let mut g = crate::PAR_PANICS.lock().unwrap();
            let mine: Vec<String> = g.iter().filter(|x| x.0 == tname).map(|x| x.1.clone()).collect();
            g.retain(|x| x.0 != tname);
            mine
        };
        if !panics.is_empty() {
            rep.violations.push(Violation::new("C06", "task_panicked_under_parallel_arrival", format!("{} task(s) of the plugin panicked: {}", panics.len(), panics[0])));
        }
        // a machine stalled for a good part of the MPP timeout could make a healthy plugin time a set out
        let slow = wall > Duration::from_secs(MPP_S / 2);
        if slow {
            rep.classes.push("slow_case(timeout-related oracles off)".into());
        }
        match out {
            None => {
                // nothing waits on anything external here; still, only a wall-clock limit says so: inconclusive
                rep.inconclusive = true;
                rep.classes.push("timed_out(inconclusive)".into());
            }
            Some(answers) => {
                let stats = pay.stats.lock().unwrap();
                for (i, p) in payments.iter().enumerate() {
                    let mine: Vec<&Value> = answers.iter().filter(|a| a.0 == i).map(|a| &a.1).collect();
                    if mine.iter().all(|m| m["result"] == "resolve") {
                        rep.classes.push("set_resolved".into());
                    } else if mine.iter().all(|m| m["result"] == "fail") {
                        rep.classes.push("set_failed".into());
                    } else {
                        rep.classes.push("set_other".into());
                    }
                    let h = p.hash();
                    let st = stats.get(&h);
                    if answers.iter().any(|a| a.0 == usize::MAX) {
                        rep.violations.push(Violation::new("C06", "handler_panicked_under_parallel_load", "a handle_htlc task panicked".into()));
                    }
                    if !slow && mine.windows(2).any(|w| w[0] != w[1]) {
                        rep.violations.push(Violation::new(
                            "C07",
                            "different_responses_under_parallel_arrival",
                            format!("the {} HTLCs of one fully funded set, delivered at the same instant on 8 worker threads, got different answers: {:?}", mine.len(), mine.iter().map(|m| m.to_string()).collect::<Vec<_>>()),
                        ));
                    }
                    let calls = st.map(|s| s.calls).unwrap_or(0);
                    if calls == 0 && mine.iter().any(|m| m["result"] == "fail") {
                        let codes: Vec<String> = mine.iter().map(|m| m["failure_message"].as_str().unwrap_or("-").to_string()).collect();
                        // 0x2019-style trampoline failure after a stalled run could be a genuine timeout; any other failure cannot
                        if !slow || codes.iter().any(|c| c != "-" && c != "2019") {
                            rep.violations.push(Violation::new(
                                "C11",
                                "funded_set_failed_without_attempt_under_parallel_arrival",
                                format!("a policy-compliant, fully funded set with no earlier attempt was failed back after {:?} (MPP timeout {MPP_S} s) without any pay attempt: {:?}", wall, codes),
                            ));
                        }
                    }
                    if slow {
                        // a lifecycle's MPP timer may have fired for genuine reasons: the remaining oracles do not apply
                        continue;
                    }
                    if let Some(st) = st {
                        if st.overlapped || st.after_complete || (st.calls > 1 && st.completed) {
                            rep.violations.push(Violation::new(
                                "C05",
                                "second_pay_under_parallel_arrival",
                                format!("pay was called {} times for one hash (overlapping: {}, after completion: {})", st.calls, st.overlapped, st.after_complete),
                            ));
                        }
                        if st.completed && mine.iter().any(|m| m["result"] == "fail") {
                            rep.violations.push(Violation::new(
                                "C02",
                                "failed_although_payment_completed_under_parallel_arrival",
                                format!("the outgoing payment completed, yet HTLCs of the set were failed: {:?}", mine.iter().map(|m| m.to_string()).collect::<Vec<_>>()),
                            ));
                        }
                        if st.running > 0 && mine.iter().any(|m| m["result"] == "fail") {
                            rep.violations.push(Violation::new("C02", "failed_while_pay_running_under_parallel_arrival", "HTLCs failed while the stub pay was still running".into()));
                        }
                    }
                }
            }
        }
        let _ = prop;
        rep.nontrivial = c.sets.len() >= 2 || c.sets.iter().any(|s| s.0 >= 3);
        rep.fingerprint = fp_of(&serde_json::to_string(c).unwrap());
        rep.classes.push("parallel_same_instant_arrival".into());
        if !c.late.is_empty() {
            rep.classes.push("htlcs_arriving_around_the_decision".into());
        }
        if let Some((n, _)) = c.big {
            rep.classes.push(format!("one_hash_with_{}_or_more_htlcs", (n / 100) * 100));
        }
        if c.stall_us > 0 && c.stall_mask != 0 {
            rep.classes.push("log_call_sites_stalled".into());
        }
        if rep.nontrivial {
            rep.sample = Some(serde_json::to_value(c).unwrap());
        }
        rep
    }
}

/// MANY — a long history in one process: `payments` different invoices are paid one after the other in waves,
/// then an HTLC arrives for each of the first `late` of them (a sender retry / a late part).
#[derive(Clone, Debug, Serialize, Deserialize)]
pub struct ManyCase {
    pub payments: u16,
    pub late: u16,
    pub wave: u16,
}

pub fn many_case(c: &ManyCase) -> CaseReport {
    let mut rep = CaseReport::default();
    let cfg = Cfg { mpp_timeout_s: 60, ..Cfg::default() };
    let need = needed_total(&cfg, 1_000_000);
    let n = c.payments as usize;
    let specs: Vec<PaymentSpec> = (0..n).map(|i| PaymentSpec { preimage_hi: 1 + (i / 250) as u8, preimage: (i % 250) as u8, invoice_amount: Some(1_000_000), tlv_amount: 1_000_000, hints: Hints::None, explicit_payee: false, recipient_ok: true, drain_parts: 1 }).collect();
    // rendered one by one (scenario indices are bytes)
    let render = |p: &PaymentSpec| {
        let h = HtlcSpec { pay: 0, hash_of: None, amount_msat: need, total_msat: Some(need), forward_msat: Some(need), cltv_expiry: 1000 + 1200, cltv_rel: 1100, forward: false, meta: Meta::Normal, extra: vec![], raw_payload: None };
        crate::props::c13::blank(vec![p.clone()], vec![h], 1).render(0)
    };
    let reqs: Vec<Value> = specs.iter().map(render).collect();
    let ok: HashMap<[u8; 32], (bool, [u8; 32])> = specs.iter().map(|p| (p.hash(), (true, p.preimage_bytes()))).collect();
    let pay = Arc::new(ParPay { stats: Mutex::new(HashMap::new()), ok, yields: 0 });
    let store = Arc::new(ParStore { state: Mutex::new(HashMap::new()), yields: 0 });
    let rt = tokio::runtime::Builder::new_multi_thread().worker_threads(8).enable_all().build().unwrap();
    let pay2 = pay.clone();
    let (wave, late) = (c.wave.max(1) as usize, (c.late as usize).min(n));
    let out: Option<(Vec<Value>, Vec<Value>)> = rt.block_on(async move {
        let mgr = Arc::new(HtlcManager::new(HtlcManagerParams {
            allow_self_route_hints: true,
            block_provider: Arc::new(Blocks),
            cltv_delta: 34,
            local_pubkey: local_pubkey(),
            mpp_timeout: Duration::from_secs(60),
            notification_service: Arc::new(NoNotif),
            payment_provider: pay2,
            routing_policy: TrampolineRoutingPolicy { fee_base_msat: 0, fee_proportional_millionths: 5000, cltv_expiry_delta: 1008 },
            store,
        }));
        let run = |mgr: Arc<HtlcManager<Blocks, NoNotif, ParPay, ParStore>>, batch: Vec<Value>| async move {
            let mut tasks = vec![];
            for r in batch {
                let mgr = mgr.clone();
                tasks.push(tokio::spawn(async move {
                    let req: HtlcAcceptedRequest = serde_json::from_value(r).unwrap();
                    serde_json::to_value(mgr.handle_htlc(&req).await).unwrap()
                }));
            }
            let mut v = vec![];
            for t in tasks {
                v.push(t.await.unwrap_or(json!({"panic": true})));
            }
            v
        };
        let all = async {
            let mut first = vec![];
            for chunk in reqs.chunks(wave) {
                first.extend(run(mgr.clone(), chunk.to_vec()).await);
            }
            let second = run(mgr.clone(), reqs[..late].to_vec()).await;
            (first, second)
        };
        tokio::time::timeout(Duration::from_secs(40), all).await.ok()
    });
    rt.shutdown_background();
    match out {
        None => {
            rep.inconclusive = true;
            rep.classes.push("timed_out(inconclusive)".into());
        }
        Some((first, second)) => {
            use secp256k1::hashes::{sha256, Hash};
            for (phase, answers) in [("first", &first), ("later", &second)] {
                for (i, a) in answers.iter().enumerate() {
                    if a.get("panic").is_some() {
                        rep.violations.push(Violation::new("C06", "handler_panicked_in_long_history", format!("payment {i} ({phase} HTLC)")));
                        continue;
                    }
                    if a["result"] == "resolve" {
                        let key = hex::decode(a["payment_key"].as_str().unwrap_or("")).unwrap_or_default();
                        if sha256::Hash::hash(&key).to_byte_array() != specs[i].hash() {
                            rep.violations.push(Violation::new(
                                "C01",
                                "settled_with_preimage_of_another_payment_in_long_history",
                                format!("after {} payments in one process, the {phase} HTLC of payment {i} was settled with key {} which does not hash to its payment hash", c.payments, a["payment_key"]),
                            ));
                        }
                    } else {
                        rep.violations.push(Violation::new("C05", "paid_invoice_not_settled_in_long_history", format!("the {phase} HTLC of payment {i} (funded, recipient pays out) was answered {a}")));
                    }
                }
            }
            let stats = pay.stats.lock().unwrap();
            let again = specs.iter().filter(|p| stats.get(&p.hash()).map(|s| s.calls > 1).unwrap_or(false)).count();
            if again > 0 {
                rep.violations.push(Violation::new("C05", "paid_again_in_long_history", format!("{again} of {} invoices were paid twice", c.payments)));
            }
        }
    }
    rep.nontrivial = c.payments > 256 && c.late > 0;
    rep.fingerprint = fp_of(&(c.payments, c.late, c.wave));
    rep.classes.push(format!("one_process_{}_payments_then_{}_late_htlcs", c.payments, c.late));
    rep.sample = Some(serde_json::to_value(c).unwrap());
    rep
}

pub fn many_phase(s: &mut Session) {
    s.assume("MANY phase: real multi-thread runtime with stub collaborators; a long history (hundreds of payments in one process) compressed into waves");
    s.regress::<ManyCase, _>("par-many", many_case);
    let mut cases = vec![ManyCase { payments: 300, late: 20, wave: 50 }, ManyCase { payments: 700, late: 300, wave: 100 }];
    if s.tier == Tier::Thorough {
        cases.extend([ManyCase { payments: 1100, late: 1100, wave: 64 }, ManyCase { payments: 5000, late: 200, wave: 500 }, ManyCase { payments: 257, late: 257, wave: 1 }]);
    }
    s.enumerate("hundreds-of-payments-in-one-process", "par-many", cases, many_case);
}

pub fn replay_many(c: Value) -> Option<CaseReport> {
    Some(many_case(&serde_json::from_value(c).ok()?))
}

/// adds the PAR phase to a session (used by C02, C05, C06, C07, C11)
pub fn par_phase(s: &mut Session, prop: &'static str) {
    s.assume("PAR phase: real multi-thread runtime with stub collaborators, thread scheduling not controlled - a violation found there is real, absence is weak evidence; schedule perturbed by stalling chosen log call sites; a case that takes longer than half the MPP timeout of 10 s is judged only on answers a timeout cannot produce, and one exceeding 30 s is inconclusive");
    let keep = s.shrink_iters;
    s.shrink_iters = 30;
    s.regress::<ParCase, _>("par", par_case(prop));
    let n = s.tier.pick(60, 1200);
    s.search("parallel-same-instant-arrival", "par", n, par_strategy, par_case(prop));
    if matches!(prop, "C02" | "C07") {
        // long histories: one payment funded by hundreds of HTLCs (parts arrive over many channels), most of them surplus
        let big = |n: u16, f: u16, stall: u16| ParCase { sets: vec![(1, true), (2, true)], yields: 1, stall_mask: 0xffff, stall_us: stall, order: 7, late: vec![], big: Some((n, f)) };
        let mut cases = vec![big(520, 40, 0), big(700, 300, 0)];
        if s.tier == Tier::Thorough {
            cases.extend([big(1500, 20, 0), big(484, 483, 0), big(600, 100, 300)]);
        }
        s.enumerate("parallel-hundreds-of-htlcs-per-hash", "par", cases, par_case(prop));
    }
    s.shrink_iters = keep;
}

/// thread scheduling is not part of the case: a replay repeats it up to 25 times and stops at the first violation
pub fn replay(prop: &'static str, c: Value) -> Option<CaseReport> {
    let c: ParCase = serde_json::from_value(c).ok()?;
    let f = par_case(prop);
    let mut rep = f(&c);
    let reps: usize = std::env::var("VERIF_PAR_REPS").ok().and_then(|x| x.parse().ok()).unwrap_or(25);
    for _ in 1..reps {
        if rep.violations.iter().any(|v| v.prop == prop) {
            break;
        }
        rep = f(&c);
    }
    Some(rep)
}
