//! C17 — wire protocol: any chunking decodes each request once; one response per id.
//! WIRE engine: the real cln_plugin driver over in-memory duplex pipes with
//! tiny buffers, generated chunking, gated handlers (arbitrary completion order).
use crate::cln_plugin::{Builder, Plugin};
use crate::gen::*;
use crate::runner::*;
use proptest::prelude::*;
use serde::{Deserialize, Serialize};
use serde_json::{json, Value};
use std::sync::{Arc, Mutex};
use std::time::Duration;
use tokio::io::{AsyncReadExt, AsyncWriteExt};

#[derive(Clone, Debug, Serialize, Deserialize)]
pub enum WireId {
    Num(u64),
    Str(String),
}

#[derive(Clone, Debug, Serialize, Deserialize)]
pub struct WireReq {
    pub id: Option<WireId>, // None = notification
    pub payload: String,
    pub ok: bool,
    /// handler may finish at once (true) or waits for the harness to release it
    pub immediate: bool,
    pub pretty: bool,
}

#[derive(Clone, Debug, Serialize, Deserialize)]
pub struct WireCase {
    pub reqs: Vec<WireReq>,
    /// chunk lengths for the input stream (cycled)
    pub chunks: Vec<u16>,
    /// output reader sizes (cycled)
    pub reads: Vec<u8>,
    /// completion order of the gated handlers
    pub order: Vec<u16>,
    pub in_buf: u8,
    pub out_buf: u8,
    /// force a cut inside the k-th separator / the first multi-byte character
    pub cut_separator: bool,
}

#[derive(Clone)]
struct St {
    invoked: Arc<Mutex<Vec<(String, u64)>>>,
    gates: Arc<Mutex<Vec<Option<tokio::sync::oneshot::Receiver<()>>>>>,
    specs: Arc<Vec<WireReq>>,
}

fn id_json(id: &WireId) -> Value {
    match id {
        WireId::Num(n) => json!(n),
        WireId::Str(s) => json!(s),
    }
}

fn render(i: usize, r: &WireReq) -> String {
    let method = if r.id.is_some() { "probe" } else { "note" };
    let mut v = json!({"jsonrpc": "2.0", "method": method, "params": {"k": i, "payload": r.payload}});
    if let Some(id) = &r.id {
        v["id"] = id_json(id);
    }
    let s = if r.pretty { serde_json::to_string_pretty(&v).unwrap() } else { v.to_string() };
    debug_assert!(!s.contains("\n\n"));
    s + "\n\n"
}

async fn run_wire(c: &WireCase) -> Result<(Vec<(String, u64)>, Vec<u8>, bool, Vec<u8>), String> {
    let (mut to_plugin, plugin_in) = tokio::io::duplex(c.in_buf.max(1) as usize);
    let (plugin_out, mut from_plugin) = tokio::io::duplex(c.out_buf.max(1) as usize);
    let mut gates_tx = vec![];
    let mut gates_rx = vec![];
    for _ in &c.reqs {
        let (tx, rx) = tokio::sync::oneshot::channel::<()>();
        gates_tx.push(Some(tx));
        gates_rx.push(Some(rx));
    }
    let st = St { invoked: Arc::new(Mutex::new(vec![])), gates: Arc::new(Mutex::new(gates_rx)), specs: Arc::new(c.reqs.clone()) };
    let builder = Builder::new(plugin_in, plugin_out)
        .hook("probe", |p: Plugin<St>, v: Value| {
            // recorded at dispatch time, synchronously, in decode order
            let k = v["k"].as_u64().unwrap_or(u64::MAX);
            p.state().invoked.lock().unwrap().push(("probe".into(), k));
            async move {
                let st = p.state().clone();
                let spec = st.specs.get(k as usize).cloned();
                let gate = st.gates.lock().unwrap().get_mut(k as usize).and_then(|g| g.take());
                if let (Some(spec), Some(gate)) = (&spec, gate) {
                    if !spec.immediate {
                        let _ = gate.await;
                    }
                }
                match spec {
                    Some(s) if s.ok => Ok(json!({"echo": k, "payload": v["payload"]})),
                    _ => Err(anyhow::anyhow!("boom {k}")),
                }
            }
        })
        .subscribe("note", |p: Plugin<St>, v: Value| {
            let k = v["k"].as_u64().unwrap_or(u64::MAX);
            p.state().invoked.lock().unwrap().push(("note".into(), k));
            async move { Ok(()) }
        })
        .with_logging(false);
    // output reader with generated read sizes
    let reads = c.reads.clone();
    let out = Arc::new(Mutex::new(Vec::<u8>::new()));
    let out2 = out.clone();
    let reader = tokio::spawn(async move {
        let mut i = 0;
        loop {
            let n = reads.get(i % reads.len().max(1)).cloned().unwrap_or(7).max(1) as usize;
            i += 1;
            let mut buf = vec![0u8; n];
            match from_plugin.read(&mut buf).await {
                Ok(0) | Err(_) => break,
                Ok(m) => out2.lock().unwrap().extend_from_slice(&buf[..m]),
            }
            tokio::task::yield_now().await;
        }
    });
    // handshake + stream
    let mut stream = String::new();
    stream.push_str(&(json!({"jsonrpc":"2.0","id":"hs-1","method":"getmanifest","params":{"allow-deprecated-apis":false}}).to_string() + "\n\n"));
    stream.push_str(&(json!({"jsonrpc":"2.0","id":"hs-2","method":"init","params":{"options":{},"configuration":{"lightning-dir":"/nowhere","rpc-file":"lightning-rpc","startup":true,"network":"regtest","feature_set":{"init":"","node":"","channel":"","invoice":""}}}}).to_string() + "\n\n"));
    let handshake_len = stream.len();
    for (i, r) in c.reqs.iter().enumerate() {
        stream.push_str(&render(i, r));
    }
    let bytes = stream.into_bytes();
    let st2 = st.clone();
    let plugin_task = tokio::spawn(async move { builder.start(st2).await.map(|p| p.is_some()).map_err(|e| e.to_string()) });
    // chunked writer
    let mut cuts: Vec<usize> = vec![];
    {
        let mut pos = 0;
        let mut i = 0;
        while pos < bytes.len() {
            let n = c.chunks.get(i % c.chunks.len().max(1)).cloned().unwrap_or(5).max(1) as usize;
            i += 1;
            pos = (pos + n).min(bytes.len());
            cuts.push(pos);
        }
        if c.cut_separator {
            // a cut between the two newlines of every separator after the handshake, and inside the first multi-byte char
            let mut extra = vec![];
            for k in handshake_len..bytes.len().saturating_sub(1) {
                if bytes[k] == b'\n' && bytes[k + 1] == b'\n' {
                    extra.push(k + 1);
                }
            }
            if let Some(k) = (handshake_len..bytes.len()).find(|k| bytes[*k] >= 0xc0) {
                extra.push(k + 1);
            }
            cuts.extend(extra);
            cuts.sort();
            cuts.dedup();
        }
    }
    let mut prev = 0;
    for cut in cuts {
        if to_plugin.write_all(&bytes[prev..cut]).await.is_err() {
            break;
        }
        prev = cut;
        tokio::time::sleep(Duration::from_millis(1)).await;
    }
    let started = match tokio::time::timeout(Duration::from_secs(5), plugin_task).await {
        Ok(Ok(Ok(b))) => b,
        Ok(Ok(Err(e))) => return Err(format!("plugin start failed: {e}")),
        Ok(Err(_)) => return Err("plugin start panicked".into()),
        Err(_) => return Err("handshake never completed".into()),
    };
    // quiesce (in-memory pipes + paused clock: a virtual sleep is a true barrier)
    for _ in 0..20 {
        tokio::time::sleep(Duration::from_millis(5)).await;
    }
    // what has been written before any gated handler is released: replies of ungated handlers must be here
    let before_release = out.lock().unwrap().clone();
    // release the gated handlers in the generated order
    let gated: Vec<usize> = (0..c.reqs.len()).filter(|i| c.reqs[*i].id.is_some() && !c.reqs[*i].immediate).collect();
    let mut remaining = gated.clone();
    let mut oi = 0;
    while !remaining.is_empty() {
        let pickv = c.order.get(oi % c.order.len().max(1)).cloned().unwrap_or(0);
        oi += 1;
        let j = pick(pickv, remaining.len());
        let k = remaining.remove(j);
        if let Some(tx) = gates_tx[k].take() {
            let _ = tx.send(());
        }
        tokio::time::sleep(Duration::from_millis(1)).await;
    }
    for _ in 0..40 {
        tokio::time::sleep(Duration::from_millis(5)).await;
    }
    drop(to_plugin);
    for _ in 0..10 {
        tokio::time::sleep(Duration::from_millis(5)).await;
    }
    reader.abort();
    let invoked = st.invoked.lock().unwrap().clone();
    let o = out.lock().unwrap().clone();
    Ok((invoked, o, started, before_release))
}

pub fn check(c: &WireCase) -> CaseReport {
    let mut rep = CaseReport::default();
    let rt = tokio::runtime::Builder::new_current_thread().enable_all().start_paused(true).build().unwrap();
    let panics_before = crate::PANICS.with(|p| p.get());
    let res = rt.block_on(run_wire(c));
    drop(rt);
    let panics = crate::PANICS.with(|p| p.get()) - panics_before;
    let v = |rep: &mut CaseReport, kind: &str, d: String| rep.violations.push(Violation::new("C17", kind, d));
    if panics > 0 {
        v(&mut rep, "panic_in_driver", format!("{panics} panics: {}", crate::LAST_PANIC.with(|l| l.borrow().clone())));
    }
    match res {
        Err(e) => v(&mut rep, "handshake_failed", e),
        Ok((invoked, out, _, before_release)) => {
            // a handler that does not wait for the harness must be answered while all the others are still parked
            let early = String::from_utf8_lossy(&before_release).to_string();
            let early_frames: Vec<Value> = early.split("\n\n").filter_map(|f| serde_json::from_str::<Value>(f).ok()).collect();
            for (i, r) in c.reqs.iter().enumerate() {
                if let (Some(id), true) = (&r.id, r.immediate) {
                    let idj = id_json(id);
                    if !early_frames.iter().any(|f| f["id"] == idj) {
                        v(&mut rep, "ungated_request_waited_for_others", format!("request {i} (id {idj}) finishes at once, but had no reply while {} other handlers were parked", c.reqs.iter().filter(|x| x.id.is_some() && !x.immediate).count()));
                    }
                }
            }
            // every request decoded exactly once, in order
            let want: Vec<(String, u64)> = c.reqs.iter().enumerate().map(|(i, r)| (if r.id.is_some() { "probe".to_string() } else { "note".to_string() }, i as u64)).collect();
            if invoked != want {
                v(&mut rep, "requests_not_decoded_once_in_order", format!("handler invocations {invoked:?}, requests sent {want:?}"));
            }
            // frames
            let text = String::from_utf8_lossy(&out).to_string();
            let mut frames: Vec<&str> = text.split("\n\n").collect();
            let tail = frames.pop().unwrap_or("");
            if !tail.is_empty() {
                v(&mut rep, "incomplete_trailing_frame", format!("output ends with an unterminated frame: {tail:?}"));
            }
            let mut replies: Vec<Value> = vec![];
            for f in frames {
                match serde_json::from_str::<Value>(f) {
                    Ok(j) => replies.push(j),
                    Err(e) => v(&mut rep, "frame_is_not_json", format!("frame {f:?}: {e}")),
                }
            }
            // skip the two handshake replies
            let body: Vec<&Value> = replies.iter().filter(|r| r["id"] != "hs-1" && r["id"] != "hs-2").collect();
            for (i, r) in c.reqs.iter().enumerate() {
                let Some(id) = &r.id else { continue };
                let idj = id_json(id);
                let mine: Vec<&&Value> = body.iter().filter(|x| x["id"] == idj && (x["result"]["echo"] == json!(i) || x["error"]["message"].as_str().map(|m| m == format!("boom {i}")).unwrap_or(false))).collect();
                let same_id = body.iter().filter(|x| x["id"] == idj).count();
                let dup_ids = c.reqs.iter().filter(|o| o.id.as_ref().map(|x| id_json(x) == idj).unwrap_or(false)).count();
                if mine.len() != 1 {
                    v(&mut rep, "not_exactly_one_reply", format!("request {i} (id {idj}) got {} matching replies ({} replies carry that id, {} requests use it)", mine.len(), same_id, dup_ids));
                    continue;
                }
                let m = mine[0];
                if r.ok {
                    if m["result"]["payload"] != json!(r.payload) {
                        v(&mut rep, "reply_payload_differs", format!("request {i}: sent payload {:?}, echoed {}", r.payload, m["result"]["payload"]));
                    }
                } else if m.get("error").is_none() {
                    v(&mut rep, "error_not_reported", format!("request {i} handler failed but reply is {m}"));
                }
            }
            let expected = c.reqs.iter().filter(|r| r.id.is_some()).count();
            if body.len() != expected {
                v(&mut rep, "reply_count", format!("{} replies for {} requests: {:?}", body.len(), expected, body));
            }
        }
    }
    let gated = c.reqs.iter().filter(|r| r.id.is_some() && !r.immediate).count();
    let multibyte = c.reqs.iter().any(|r| r.payload.bytes().any(|b| b >= 0x80) || matches!(&r.id, Some(WireId::Str(s)) if s.bytes().any(|b| b >= 0x80)));
    rep.nontrivial = gated >= 2 || c.cut_separator || (multibyte && c.chunks.iter().any(|x| *x <= 3));
    rep.fingerprint = fp_of(&serde_json::to_string(c).unwrap());
    if gated >= 2 {
        rep.classes.push("two_or_more_outstanding".into());
    }
    if c.cut_separator {
        rep.classes.push("cut_inside_separator".into());
    }
    if multibyte {
        rep.classes.push("multibyte_utf8".into());
    }
    if c.chunks.iter().all(|x| *x == 1) {
        rep.classes.push("byte_by_byte".into());
    }
    if rep.nontrivial {
        rep.sample = Some(serde_json::to_value(c).unwrap());
    }
    rep
}

fn payload_strategy() -> impl Strategy<Value = String> {
    prop_oneof![
        3 => "[a-z0-9 ]{0,20}",
        2 => Just("line1\nline2\n\nline4 \\n\\n \"quoted\" \t".to_string()),
        2 => Just("héllo wörld ✓ 日本語 🎉".to_string()),
        1 => "[ -~]{0,60}",
        1 => proptest::collection::vec(any::<char>(), 0..20).prop_map(|v| v.into_iter().collect()),
        1 => Just("x".repeat(700)),
    ]
}

fn id_strategy() -> impl Strategy<Value = Option<WireId>> {
    prop_oneof![
        5 => any::<u32>().prop_map(|n| Some(WireId::Num(n as u64))),
        3 => "[a-z]{1,6}:[a-z]+#[0-9]{1,4}".prop_map(|s| Some(WireId::Str(s))),
        2 => Just(Some(WireId::Str("ïd/✓#42".to_string()))),
        1 => Just(None),
    ]
}

pub fn case_strategy() -> impl Strategy<Value = WireCase> {
    (
        prop_oneof![
            9 => proptest::collection::vec((id_strategy(), payload_strategy(), prop_oneof![4 => Just(true), 1 => Just(false)], any::<bool>(), any::<bool>()), 1..7),
            // many calls parked at the same time (like HTLCs held by the plugin) plus a few that finish at once
            1 => proptest::collection::vec((id_strategy(), "[a-z]{0,6}", Just(true), prop_oneof![9 => Just(false), 1 => Just(true)], Just(false)), 34..70),
        ],
        prop_oneof![
            2 => Just(vec![1u16]),
            3 => proptest::collection::vec(1u16..8, 1..6),
            2 => proptest::collection::vec(1u16..200, 1..6),
            1 => Just(vec![10_000u16]),
        ],
        proptest::collection::vec(1u8..40, 1..5),
        proptest::collection::vec(any::<u16>(), 1..8),
        prop_oneof![Just(1u8), Just(2u8), 3u8..64, Just(255u8)],
        prop_oneof![Just(1u8), Just(2u8), 3u8..64, Just(255u8)],
        any::<bool>(),
    )
        .prop_map(|(reqs, chunks, reads, order, in_buf, out_buf, cut_separator)| {
            let mut seen = std::collections::HashSet::new();
            let reqs = reqs
                .into_iter()
                .enumerate()
                .map(|(i, (id, payload, ok, immediate, pretty))| {
                    // ids are unique per outstanding request in lightningd
                    let id = id.map(|x| {
                        let key = serde_json::to_string(&x).unwrap();
                        if seen.insert(key) {
                            x
                        } else {
                            WireId::Str(format!("dup-{i}"))
                        }
                    });
                    WireReq { id, payload, ok, immediate, pretty }
                })
                .collect();
            WireCase { reqs, chunks, reads, order, in_buf, out_buf, cut_separator }
        })
}

pub fn run(tier: Tier, seed: u64) -> i32 {
    let rule = "WIRE: the real cln_plugin Builder/driver over in-memory duplex pipes with 1..255-byte buffers (partial reads and writes). Generated: 1-6 requests/notifications (numeric and string ids incl. non-ASCII, payloads with escaped newlines and multi-byte UTF-8, compact or pretty-printed JSON), partition of the byte stream into chunks (1 byte .. whole stream, cuts forced between the two newlines of a separator and inside a multi-byte character), output reader sizes, handlers gated and released in a generated order, handler results ok/err. Oracle: handler invocations = requests, once each, in stream order; output splits into complete JSON frames; one reply per request id with the matching result/error. E2E: concurrent htlc_accepted calls at trace log level through the real binary (stdout shared by replies and log notifications). Non-trivial: >=2 requests outstanding with generated completion order, or a cut inside a separator/multi-byte character; distinct by case content.";
    let mut s = Session::new("C17", tier, seed, "exploration", rule);
    s.assume("in-process the plugin's logging layer is disabled (logging::init installs a process-global subscriber once); log/reply interleaving is covered by the E2E phase");
    s.regress::<WireCase, _>("wire", check);
    s.search("wire", "wire", tier.pick(800, 30000), case_strategy, check);
    crate::e2e::c17_e2e(&mut s);
    s.finish()
}

pub fn replay(engine: &str, c: Value) -> Option<CaseReport> {
    if engine == "wire" {
        return Some(check(&serde_json::from_value(c).ok()?));
    }
    None
}
