//! C19 — startup configuration is validated and applied faithfully (E2E only:
//! main() is reachable only through the real binary).
use crate::e2e::*;
use crate::refmodel::*;
use crate::runner::*;
use crate::scen::*;
use proptest::prelude::*;
use serde::{Deserialize, Serialize};
use serde_json::{json, Map, Value};
use std::time::Duration;

#[derive(Clone, Debug, Serialize, Deserialize)]
pub struct CfgCase {
    pub cltv_delta: i64,
    pub policy_delta: i64,
    pub base: i64,
    pub ppm: i64,
    pub mpp: i64,
    pub pay_timeout: i64,
    pub no_self: bool,
    pub xpay: bool,
}

const EDGE: &[i64] = &[i64::MIN, -1, 0, 1, 33, 34, 35, 65535, 65536, 4294967295, 4294967296, i64::MAX];

fn delta() -> impl Strategy<Value = i64> {
    prop_oneof![4 => proptest::sample::select(&[1i64, 6, 33, 34, 35, 40, 144, 1008, 2016, 65534, 65535][..]), 2 => proptest::sample::select(EDGE), 1 => 0i64..3000]
}
fn fee() -> impl Strategy<Value = i64> {
    prop_oneof![4 => proptest::sample::select(&[0i64, 1, 1000, 5000, 999_999, 4294967295][..]), 2 => proptest::sample::select(EDGE), 1 => 0i64..100_000]
}

pub fn cfg_case() -> impl Strategy<Value = CfgCase> {
    (
        delta(),
        delta(),
        fee(),
        fee(),
        prop_oneof![6 => proptest::sample::select(&[1i64, 2, 1, 2, 0][..]), 1 => proptest::sample::select(EDGE)],
        prop_oneof![4 => proptest::sample::select(&[0i64, 1, 3, 60, 65535, 65536, 4294967296, i64::MAX][..]), 1 => proptest::sample::select(EDGE)],
        any::<bool>(),
        any::<bool>(),
        0u8..10,
    )
        .prop_map(|(a, b, base, ppm, mpp, pay_timeout, no_self, xpay, swap)| {
            // equal / swapped deltas over-represented
            let (cltv_delta, policy_delta) = match swap {
                0 => (a, a),
                1 => (b, a),
                2 => (a.min(b), a.max(b)),
                3 => (a.max(b), a.min(b)),
                _ => {
                    if a < b {
                        (a, b)
                    } else {
                        (b, a)
                    }
                }
            };
            CfgCase { cltv_delta, policy_delta, base, ppm, mpp, pay_timeout, no_self, xpay }
        })
}

fn should_start(c: &CfgCase) -> bool {
    let u16ok = |v: i64| (0..=65535).contains(&v);
    let u32ok = |v: i64| (0..=4294967295).contains(&v);
    u16ok(c.cltv_delta) && u16ok(c.policy_delta) && u32ok(c.base) && u32ok(c.ppm) && c.mpp >= 0 && c.pay_timeout >= 0 && c.policy_delta > c.cltv_delta
}

fn options(c: &CfgCase) -> Map<String, Value> {
    let mut m = Map::new();
    m.insert("trampoline-cltv-delta".into(), json!(c.cltv_delta));
    m.insert("trampoline-policy-cltv-delta".into(), json!(c.policy_delta));
    m.insert("trampoline-policy-fee-base".into(), json!(c.base));
    m.insert("trampoline-policy-fee-per-satoshi".into(), json!(c.ppm));
    m.insert("trampoline-mpp-timeout".into(), json!(c.mpp));
    m.insert("trampoline-payment-timeout".into(), json!(c.pay_timeout));
    m.insert("trampoline-no-self-route-hints".into(), json!(c.no_self));
    m.insert("trampoline-xpay".into(), json!(c.xpay));
    m
}

fn htlc(pay: u8, amount: u64, total: u64, expiry: u32, rel: i64) -> HtlcSpec {
    HtlcSpec { pay, hash_of: None, amount_msat: amount, total_msat: Some(total), forward_msat: Some(amount), cltv_expiry: expiry, cltv_rel: rel, forward: false, meta: Meta::Normal, extra: vec![], raw_payload: None }
}

pub fn check(c: &CfgCase) -> CaseReport {
    let mut rep = CaseReport::default();
    let want_start = should_start(c);
    rep.fingerprint = fp_of(&serde_json::to_string(c).unwrap());
    if !std::path::Path::new(&binary()).exists() {
        rep.inconclusive = true;
        return rep;
    }
    let r = rt();
    let v = |rep: &mut CaseReport, kind: &str, d: String| rep.violations.push(Violation::new("C19", kind, d));
    let res: Result<(), String> = r.block_on(async {
        let height = 1000u32;
        let started = Proc::start(options(c), None, PayMode::FailFast, height, &[]).await?;
        let mut p = match started {
            Started::Refused { code, stderr, init_replied } => {
                if want_start {
                    v(&mut rep, "valid_configuration_refused", format!("{c:?} refused (exit {code:?}): {}", stderr.chars().take(200).collect::<String>()));
                } else if init_replied || code == Some(0) {
                    v(&mut rep, "refusal_after_init_or_clean_exit", format!("{c:?}: exit code {code:?}, init replied {init_replied}"));
                }
                rep.classes.push("refused".into());
                return Ok(());
            }
            Started::Running(p) => p,
        };
        if !want_start {
            v(&mut rep, "invalid_configuration_accepted", format!("{c:?} must be refused (value out of range or policy delta <= safety delta) but the plugin started"));
            p.stop().await;
            return Ok(());
        }
        rep.classes.push("started".into());
        // with a long MPP timeout the script runs without waiting for the partial set to time out: everything else
        // (policy bytes, threshold, pay parameters, flag) is independent of it, and the partial HTLC must stay held
        let long = c.mpp > 3;
        if long {
            rep.classes.push("started_with_long_mpp_timeout(partial set must stay held)".into());
        }
        let cfg = Cfg { base: c.base as u32, ppm: c.ppm as u32, policy_delta: c.policy_delta as u16, cltv_delta: c.cltv_delta as u16, mpp_timeout_s: c.mpp as u64, allow_self: !c.no_self };
        let amount = 1_000_000u64;
        let need = needed_total(&cfg, amount);
        let mk = |i: u8, hints: Hints| PaymentSpec { preimage_hi: 0, preimage: 0x10 + i, invoice_amount: Some(amount), tlv_amount: amount, hints, explicit_payee: false, recipient_ok: false, drain_parts: 0 };
        let payments = vec![mk(0, Hints::None), mk(1, Hints::None), mk(2, Hints::None), mk(3, Hints::None), mk(4, Hints::None), mk(5, Hints::OursLast)];
        let rel_ok = cfg.policy_delta as i64 + 5;
        let pd = cfg.policy_delta as u32;
        let sd = cfg.cltv_delta as u32;
        let htlcs = vec![
            // 0: relative expiry one below the policy delta => 0x201a || policy
            htlc(0, need, need, height + 5000, cfg.policy_delta as i64 - 1),
            // 1: funded exactly at the threshold, room 10 blocks above the safety delta
            htlc(1, need, need, height + sd + 10, rel_ok),
            // 2: declared total one below the threshold
            htlc(2, need.saturating_sub(1), need.saturating_sub(1), height + 5000, rel_ok),
            // 3: funded, far expiry => maxdelay capped at the policy delta
            htlc(3, need, need, height + sd + pd + 50, rel_ok),
            // 4: half of what is needed => MPP timeout
            htlc(4, need / 2, need, height + 5000, rel_ok),
            // 5: local node is the last hop of a route hint
            htlc(5, need, need, height + sd + 10, rel_ok),
        ];
        let scn = Scenario { cfg: cfg.clone(), payments, htlcs, ..crate::props::c13::blank(vec![], vec![], 1) };
        let t_send = std::time::Instant::now();
        for i in 0..6 {
            p.send_htlc(json!(format!("p{i}")), &scn.render(i)).await;
        }
        let mut t_reply: Vec<Option<Duration>> = vec![None; 6];
        let limit = if long { Duration::from_secs(6) } else { Duration::from_secs(c.mpp as u64 + 12) };
        loop {
            for i in 0..6 {
                if t_reply[i].is_none() && p.reply(&json!(format!("p{i}"))).is_some() {
                    t_reply[i] = Some(t_send.elapsed());
                }
            }
            if t_reply.iter().all(|t| t.is_some()) || p.panicked().is_some() || t_send.elapsed() > limit {
                break;
            }
            tokio::time::sleep(Duration::from_millis(5)).await;
        }
        if let Some(m) = p.panicked() {
            v(&mut rep, "panic_in_binary", m);
        }
        let policy_bytes = hex::encode(fee_failure_ref(cfg.base, cfg.ppm, cfg.policy_delta));
        let answer = |i: usize| p.reply(&json!(format!("p{i}"))).map(|r| r["result"].clone());
        let pays: Vec<Value> = p.rpcs().into_iter().filter(|r| r.0 == "pay").map(|r| r.1).collect();
        let pay_for = |i: usize| {
            let b = build_invoice(&scn.payments[i], InvKind::Normal);
            pays.iter().find(|p| p["bolt11"] == json!(b)).cloned()
        };
        let mpp0 = c.mpp == 0;
        // (i) policy bytes in the rejection
        if !mpp0 {
            match answer(0) {
                Some(a) if a["result"] == "fail" && a["failure_message"] == json!(policy_bytes) => {}
                Some(a) => v(&mut rep, "advertised_policy_differs", format!("{c:?}: low-relative-expiry HTLC answered {a}, expected fail {policy_bytes}")),
                None => rep.inconclusive = true,
            }
            // (ii) threshold
            if pay_for(1).is_none() {
                v(&mut rep, "funded_at_threshold_not_paid", format!("{c:?}: HTLC carrying exactly amount+fee = {need} did not lead to a pay request (answer {:?})", answer(1)));
            }
            if need > amount {
                match answer(2) {
                    Some(a) if a["result"] == "fail" && a["failure_message"] == json!(policy_bytes) => {}
                    Some(a) => v(&mut rep, "one_below_threshold_not_rejected", format!("{c:?}: declared total {} (one below amount+fee) answered {a}", need - 1)),
                    None => rep.inconclusive = true,
                }
                if pay_for(2).is_some() {
                    v(&mut rep, "one_below_threshold_paid", format!("{c:?}: pay issued for a total one below the threshold"));
                }
            }
            // (iii) both deltas and the retry time in the pay request
            let retry_want = (c.pay_timeout as u64).min(65535);
            if let Some(pr) = pay_for(1) {
                let want = 10u64.min(pd as u64);
                if pr["maxdelay"].as_u64() != Some(want) {
                    v(&mut rep, "safety_delta_not_applied", format!("{c:?}: expiry = height + safety delta + 10: maxdelay {} expected {want}", pr["maxdelay"]));
                }
                if pr["retry_for"].as_u64() != Some(retry_want) {
                    v(&mut rep, "retry_time_differs", format!("{c:?}: retry_for {} expected {retry_want}", pr["retry_for"]));
                }
            }
            match pay_for(3) {
                Some(pr) => {
                    if pr["maxdelay"].as_u64() != Some(pd as u64) {
                        v(&mut rep, "policy_delta_cap_not_applied", format!("{c:?}: far expiry: maxdelay {} expected the policy delta {pd}", pr["maxdelay"]));
                    }
                }
                None => v(&mut rep, "funded_far_expiry_not_paid", format!("{c:?}: answer {:?}", answer(3))),
            }
            // (v) self route hint flag
            let a5 = answer(5);
            if c.no_self {
                if pay_for(5).is_some() || a5.as_ref().map(|a| a["result"] != "fail").unwrap_or(false) {
                    v(&mut rep, "self_route_hint_flag_ignored", format!("{c:?}: flag set, but HTLC with local node as last hint hop answered {a5:?}, pay issued: {}", pay_for(5).is_some()));
                }
            } else if pay_for(5).is_none() {
                v(&mut rep, "self_route_hint_rejected_without_flag", format!("{c:?}: flag not set, but no pay for the self-hint invoice (answer {a5:?})"));
            }
        }
        // (iv) MPP timeout: not before (strict), and not much later while the plugin is demonstrably responsive
        match (answer(4), t_reply[4]) {
            (Some(a), Some(t)) => {
                if a["result"] != "fail" || a["failure_message"] != "2019" {
                    v(&mut rep, "partial_set_wrong_answer", format!("{c:?}: partial HTLC answered {a}"));
                }
                if t < Duration::from_secs((c.mpp as u64).min(1 << 40)) {
                    v(&mut rep, "mpp_timeout_shorter_than_configured", format!("{c:?}: partial HTLC failed after {t:?}, configured {} s", c.mpp));
                }
            }
            _ if long => {}
            _ => {
                // still unanswered after mpp + 12 s: is the plugin alive?
                let ping = HtlcSpec { forward: true, ..htlc(0, 1, 1, height + 100, 100) };
                let scn2 = Scenario { htlcs: vec![ping], ..scn.clone() };
                p.send_htlc(json!("ping"), &scn2.render(0)).await;
                if p.wait_reply(&json!("ping"), 3000).await.is_some() && p.panicked().is_none() {
                    v(&mut rep, "mpp_timeout_longer_than_configured", format!("{c:?}: partial HTLC still held {:?} after delivery while the plugin answers other requests at once", t_send.elapsed()));
                } else {
                    rep.inconclusive = true;
                }
            }
        }
        p.stop().await;
        Ok(())
    });
    if let Err(e) = res {
        rep.inconclusive = true;
        rep.classes.push(format!("infrastructure: {}", e.chars().take(80).collect::<String>()));
    }
    let boundary = [c.cltv_delta, c.policy_delta, c.base, c.ppm, c.mpp, c.pay_timeout].iter().any(|v| EDGE.contains(v)) || c.policy_delta == c.cltv_delta || c.policy_delta == c.cltv_delta + 1;
    let nondefault = [c.cltv_delta != 34, c.policy_delta != 1008, c.base != 0, c.ppm != 5000, c.mpp != 60, c.pay_timeout != 60, c.no_self, c.xpay].iter().filter(|b| **b).count();
    rep.nontrivial = if want_start { nondefault >= 2 } else { boundary };
    if !want_start && boundary {
        rep.classes.push("refusal_at_boundary".into());
    }
    if rep.nontrivial {
        rep.sample = Some(serde_json::to_value(c).unwrap());
    }
    rep
}

fn fixed_cases() -> Vec<CfgCase> {
    let d = CfgCase { cltv_delta: 34, policy_delta: 1008, base: 0, ppm: 5000, mpp: 1, pay_timeout: 60, no_self: false, xpay: false };
    let mut v = vec![d.clone()];
    // boundaries of every option, one at a time
    for x in [-1i64, 0, 65535, 65536] {
        v.push(CfgCase { cltv_delta: x, policy_delta: if x >= 65535 { 65535 } else { 1008 }, ..d.clone() });
        v.push(CfgCase { policy_delta: x, cltv_delta: if x <= 34 { 0 } else { 34 }, ..d.clone() });
    }
    for x in [-1i64, 0, 4294967295, 4294967296] {
        v.push(CfgCase { base: x, ..d.clone() });
        v.push(CfgCase { ppm: x, ..d.clone() });
    }
    for x in [-1i64, 0, 2, 4294967296, i64::MAX] {
        v.push(CfgCase { mpp: x, ..d.clone() });
    }
    for x in [-1i64, 0, 65535, 65536, i64::MAX] {
        v.push(CfgCase { pay_timeout: x, ..d.clone() });
    }
    // equal and swapped deltas; distinct deltas/timeouts so that a swap shows
    v.push(CfgCase { cltv_delta: 40, policy_delta: 40, ..d.clone() });
    v.push(CfgCase { cltv_delta: 41, policy_delta: 40, ..d.clone() });
    v.push(CfgCase { cltv_delta: 40, policy_delta: 41, ..d.clone() });
    v.push(CfgCase { cltv_delta: 6, policy_delta: 144, base: 1000, ppm: 1, mpp: 2, pay_timeout: 3, no_self: true, xpay: true });
    v
}

pub fn run(tier: Tier, seed: u64) -> i32 {
    let rule = "E2E (real binary, main()): assignments of the six integer options from {i64::MIN, -1, 0, 1, 33, 34, 35, 65535, 65536, 2^32-1, 2^32, i64::MAX, typical values} and the two boolean options, equal/swapped deltas over-represented, plus a fixed list walking every option's boundaries. Reference: starts iff deltas fit u16, fees fit u32, timeouts >= 0 and policy delta > safety delta. Oracle: refusing configurations exit non-zero without an init reply; accepted ones run a probe script: rejection carries exactly (base, ppm, policy delta); total at the fee threshold paid / one below rejected; maxdelay = expiry - height - safety delta resp. capped at the policy delta; retry_for = min(payment timeout, 65535); a partial HTLC is failed not before the MPP timeout (strict) and not while the plugin demonstrably keeps it far longer; the self-route-hint flag. Non-trivial: accepted configuration differing from the defaults in >=2 options, or a refusal at a boundary; distinct by configuration.";
    let mut s = Session::new("C19", tier, seed, "exploration", rule);
    s.assume("E2E: real binary built from /repo's working tree; real time gives a strict lower bound for the MPP timeout; an upper bound is judged only while the plugin answers an unrelated request at once (otherwise inconclusive, exit 2)");
    s.shrink_iters = 10;
    let before = s.total.inconclusive;
    s.regress::<CfgCase, _>("e2e-config", check);
    s.enumerate("e2e-fixed-boundaries", "e2e-config", fixed_cases(), check);
    s.search("e2e-generated", "e2e-config", tier.pick(3, 40), cfg_case, check);
    s.e2e_inconclusive += s.total.inconclusive - before;
    s.finish()
}

pub fn replay(c: Value) -> Option<CaseReport> {
    Some(check(&serde_json::from_value(c).ok()?))
}
