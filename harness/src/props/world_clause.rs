//! WORLD clause of C12: rejection carries the configured policy.
use crate::monitors::Stats;
use crate::props::worldprops::*;
use crate::runner::*;
use crate::scen::*;

pub fn c12_world(s: &mut Session) {
    let nontrivial: fn(&Stats) -> bool = |st| st.c12_clause > 0;
    let classes: fn(&Stats) -> Vec<String> = |st| if st.c12_clause > 0 { vec!["first_htlc_rejected_by_fee_or_expiry".into()] } else { vec![] };
    let case = world_case("C12", nontrivial, classes);
    s.regress::<Scenario, _>("world", &case);
    let prof = Profile { w_reject: 45, w_under: 10, w_nontramp: 0, w_hash_mismatch: 0, w_crash: 1, write_faults: false, extreme_cfg: true, max_parts: 3, ..Profile::default() };
    let n = s.tier.pick(500, 15000);
    s.search("world-rejection-carries-policy", "world", n, move || scenario_strategy(prof.clone()), &case);
}
