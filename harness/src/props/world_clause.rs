use crate::runner::Session;
pub fn c12_world(_s: &mut Session) {}
