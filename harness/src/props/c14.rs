//! C14 — payments for different hashes are isolated (differential).
use crate::gen::*;
use crate::props::c13::{blank, observable};
use crate::props::worldprops::*;
use crate::refmodel::*;
use crate::runner::*;
use crate::scen::*;
use crate::world::{Ev, World};
use proptest::prelude::*;
use serde::{Deserialize, Serialize};
use serde_json::json;

#[derive(Clone, Debug, Serialize, Deserialize)]
pub struct Iso {
    /// payments[0] = A (to be frozen), payments[1] = B (race-free)
    pub scn: Scenario,
}

fn well_formed_set(cfg: &Cfg, pay: u8, spec: &PaymentSpec, parts: usize, funded: bool, start_height: u32, splits: &[u16]) -> Vec<HtlcSpec> {
    let amount = spec.deliver_amount();
    let need = needed_total(cfg, amount);
    let total = if funded { need } else { need / 2 };
    let mut rest = total;
    let mut out = vec![];
    for i in 0..parts {
        let a = if i + 1 == parts { rest } else { ((splits[i] as u128 + 1) * rest as u128 / 65537 / 2) as u64 };
        rest -= a;
        out.push(HtlcSpec {
            pay,
            hash_of: None,
            amount_msat: a,
            total_msat: Some(total.max(need)),
            forward_msat: Some(a),
            cltv_expiry: start_height + cfg.policy_delta as u32 + 20 + i as u32,
            cltv_rel: cfg.policy_delta as i64 + 20 + i as i64,
            forward: false,
            meta: Meta::Normal,
            extra: vec![],
            raw_payload: None,
        });
    }
    out
}

fn iso_strategy() -> impl Strategy<Value = Iso> {
    (
        (1usize..=3, 1usize..=3, any::<bool>(), any::<bool>(), proptest::collection::vec(any::<u16>(), 6)),
        (any::<bool>(), any::<bool>(), 0u8..3, any::<bool>(), any::<bool>(), 0u8..3),
        // freeze point for A: k-th RPC of A (0 = state fetch ... up to 12), or A on its MPP timer (underfunded, k irrelevant)
        (0u16..13, any::<bool>()),
        proptest::collection::vec(any::<u16>(), 8),
        any::<u64>(),
        proptest::sample::select(&[10u64, 60, 120][..]),
        0usize..3,
        prop_oneof![4 => Just(false), 1 => Just(true)],
        // restart mode: both payments were in flight when an earlier lifetime died (Pending records, parts pending)
        (prop_oneof![3 => Just(false), 1 => Just(true)], 1u8..=2, 1u8..=2),
        // A's store RPCs all fail (instead of being withheld): A is failed again and again while B runs
        prop_oneof![4 => Just(0u8), 1 => 3u8..=5],
    )
        .prop_map(|((na, nb, a_amountless, b_amountless, splits), (a_ok, b_ok, a_parts, b_funded, a_funded, b_parts), (k, _), shuffle, seed, mpp, a_rejecting, stuck_poll, (restart_mode, a_old_parts, b_old_parts), a_store_fails)| {
            let cfg = Cfg { mpp_timeout_s: mpp, ..Cfg::default() };
            let pa = PaymentSpec { preimage_hi: 0, preimage: if seed % 2 == 0 { 0x04 } else { 0x11 }, // sha256(32 x 0x04) and sha256(32 x 0x22) share their first byte
                invoice_amount: if a_amountless { None } else { Some(1_000_000) }, tlv_amount: 777_000, hints: Hints::None, explicit_payee: false, recipient_ok: a_ok, drain_parts: a_parts };
            let pb = PaymentSpec { preimage_hi: 0, preimage: 0x22, invoice_amount: if b_amountless { None } else { Some(2_000_000) }, tlv_amount: 555_000, hints: Hints::Other, explicit_payee: true, recipient_ok: b_ok, drain_parts: b_parts };
            let na = if a_store_fails > 0 { na.max(a_store_fails as usize).min(3) } else { na };
            let mut htlcs = well_formed_set(&cfg, 0, &pa, na, a_funded, 1000, &splits[..3]);
            if a_store_fails > 0 {
                // more HTLCs of A than any retry/circuit-breaker threshold a maintainer would pick
                let extra = well_formed_set(&cfg, 0, &pa, (a_store_fails as usize).min(3), false, 1000, &splits[..3]);
                htlcs.extend(extra);
            }
            // A (only A) may also receive late HTLCs that are rejected for two reasons at once
            // (relative expiry too low AND declared total too low)
            for i in 0..a_rejecting {
                htlcs.push(HtlcSpec {
                    pay: 0,
                    hash_of: None,
                    amount_msat: 1000 + i as u64,
                    total_msat: Some(1),
                    forward_msat: Some(1000),
                    cltv_expiry: 1000 + 10,
                    cltv_rel: 10,
                    forward: false,
                    meta: Meta::Normal,
                    extra: vec![],
                    raw_payload: None,
                });
            }
            htlcs.extend(well_formed_set(&cfg, 1, &pb, nb, b_funded, 1000, &splits[3..]));
            let n = htlcs.len();
            for (i, s) in shuffle.iter().enumerate() {
                if i < n {
                    let j = pick(*s, n);
                    htlcs.swap(i, j);
                }
            }
            let mut scn = blank(vec![pa, pb], htlcs, seed);
            scn.cfg = cfg;
            scn.freeze = Some((0, k));
            if restart_mode {
                scn.initial_pending = vec![0, 1];
                for _ in 0..a_old_parts {
                    scn.initial_parts.push((0, 0));
                }
                for _ in 0..b_old_parts {
                    scn.initial_parts.push((1, 0));
                }
                // A stays stuck in its status queries / waitsendpay
                scn.freeze = Some((0, k % 5));
            }
            if a_store_fails > 0 && !restart_mode {
                scn.freeze = None;
                scn.fail_store = Some(0);
            }
            if stuck_poll {
                // a periodic getinfo poll that lightningd never answers is outstanding while both payments run
                scn.manual_getinfo = true;
                scn.freeze_polls = true;
                scn.steps = vec![Step::Tick(13)];
            }
            Iso { scn }
        })
}

fn case(iso: &Iso) -> CaseReport {
    let both = &iso.scn;
    let hash_b = both.payments[1].hash();
    // B alone: A's HTLCs removed, nothing frozen
    let mut alone = both.clone();
    alone.freeze = None;
    let map_alone: Vec<usize> = (0..both.htlcs.len()).filter(|i| both.htlcs[*i].pay == 1).collect();
    alone.htlcs.retain(|h| h.pay == 1);
    alone.initial_pending.retain(|p| *p == 1);
    alone.initial_parts.retain(|p| p.0 == 1);
    let mut wa = World::new(alone.clone());
    wa.run();
    let mut wb = World::new(both.clone());
    wb.run();
    let oa = observable(&wa, &|h| Some(h), Some(hash_b));
    let m = map_alone.clone();
    let ob = observable(&wb, &move |h| m.iter().position(|x| *x == h), Some(hash_b));
    let mut rep = CaseReport::default();
    // was A really frozen mid-RPC while B still had work to do?
    let log = wb.log();
    let a_hash = both.payments[0].hash();
    let a_rpcs = log.iter().filter(|r| matches!(&r.ev, Ev::RpcArrive { hash, .. } if *hash == Some(a_hash))).count();
    let a_unanswered = wb.shared.lock().unwrap().pending.iter().filter(|r| r.hash == Some(a_hash)).count();
    let b_last = log.iter().filter(|r| matches!(&r.ev, Ev::HtlcAnswer { h, .. } if both.htlcs.get(*h).map(|x| x.pay == 1).unwrap_or(false))).map(|r| r.seq).max();
    let a_frozen_seq = log.iter().filter(|r| matches!(&r.ev, Ev::RpcArrive { hash, .. } if *hash == Some(a_hash))).map(|r| r.seq).last();
    let frozen_before_b_done = match (a_frozen_seq, b_last) {
        (Some(a), Some(b)) => a_unanswered > 0 && a < b,
        _ => false,
    };
    if oa != ob {
        let first = oa.iter().zip(ob.iter()).position(|(a, b)| a != b).unwrap_or(oa.len().min(ob.len()));
        rep.violations.push(Violation::new(
            "C14",
            "payment_depends_on_other_hash",
            format!(
                "payment B behaves differently beside frozen payment A (A frozen from its RPC #{}): alone {:?} vs beside A {:?} (position {first}; lengths {} / {})",
                both.freeze.map(|f| f.1).unwrap_or(0),
                oa.get(first),
                ob.get(first),
                oa.len(),
                ob.len()
            ),
        ));
    }
    // B must complete
    let b_unanswered: Vec<usize> = (0..both.htlcs.len()).filter(|i| both.htlcs[*i].pay == 1 && wb.answered[*i].is_none()).collect();
    if !b_unanswered.is_empty() {
        rep.violations.push(Violation::new("C14", "payment_blocked_by_other_hash", format!("HTLCs {b_unanswered:?} of payment B never answered while payment A is frozen")));
    }
    // datastore keys / pay arguments of B depend only on B
    for r in log.iter() {
        if let Ev::RpcArrive { method, params, hash, .. } = &r.ev {
            if method == "pay" && *hash == Some(hash_b) {
                let held_b: u128 = both.htlcs.iter().filter(|h| h.pay == 1).map(|h| h.amount_msat as u128).sum();
                let maxfee = params.get("maxfee").and_then(crate::node::parse_msat).unwrap_or(0) as u128;
                if maxfee > held_b {
                    rep.violations.push(Violation::new("C14", "amounts_pooled_across_hashes", format!("B's maxfee {maxfee} exceeds everything B's HTLCs carry ({held_b})")));
                }
            }
        }
    }
    rep.nontrivial = frozen_before_b_done;
    rep.fingerprint = wb.mon.trace_fp;
    rep.classes.push(format!("A_rpcs_seen_{}", a_rpcs.min(12)));
    if a_unanswered > 0 {
        rep.classes.push("A_frozen_mid_rpc".into());
    } else {
        rep.classes.push("A_on_timer_or_done".into());
    }
    if wb.mon.stats.pays > 0 {
        rep.classes.push("B_or_A_paid".into());
    }
    rep.inconclusive = wa.inconclusive || wb.inconclusive;
    if rep.nontrivial || !rep.violations.is_empty() {
        rep.sample = Some(json!({"scenario": describe(both), "freeze_A_from_rpc": both.freeze.map(|f| f.1), "B_observable": ob.iter().take(25).collect::<Vec<_>>()}));
    }
    rep
}

pub fn run(tier: Tier, seed: u64) -> i32 {
    let rule = "WORLD differential: payment B (well-formed, race-free: funded and succeeding / failing at the recipient, or underfunded and timing out) is run alone, and beside payment A whose every RPC from its k-th on (k = 0..12: state fetch, either intent write, pay, either list call, waitsendpay, either mark_* write) is withheld forever, or which sits on its MPP timer. Oracle: B's observable trace (its RPC requests with arguments, modulo attempt ids, and the answers of its HTLCs) is identical in both runs, all of B's HTLCs are answered, B's fee budget never exceeds what B's own HTLCs carry. Non-trivial: A had an RPC outstanding (frozen) before B's last answer; distinct by abstract trace hash.";
    let mut s = Session::new("C14", tier, seed, "exploration", rule);
    for a in ASSUMPTIONS {
        s.assume(a);
    }
    s.regress::<Iso, _>("world-differential", case);
    s.search("world-differential", "world-differential", tier.pick(800, 20000), iso_strategy, case);
    // the plugin framework (reply path) is only reachable through the binary
    crate::e2e::c14_e2e(&mut s);
    s.finish()
}

pub fn replay(engine: &str, c: serde_json::Value) -> Option<CaseReport> {
    if engine == "world-differential" {
        return Some(case(&serde_json::from_value(c).ok()?));
    }
    None
}
