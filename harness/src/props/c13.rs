//! C13 — non-trampoline HTLCs pass through untouched and without side effects.
use crate::gen::*;
use crate::props::worldprops::*;
use crate::refmodel::*;
use crate::runner::*;
use crate::scen::*;
use crate::world::{Ev, World};
use proptest::prelude::*;
use serde_json::json;

fn extra_records() -> impl Strategy<Value = Vec<(u64, Hx)>> {
    proptest::collection::vec(
        (
            prop_oneof![4 => proptest::sample::select(&[2u64, 4, 6, 8, 10, 18, 20, 0xfd, 0xfe, 65536, 33001, 33003, 0x1_0000_0001][..]), 1 => 0u64..1000],
            prop_oneof![4 => proptest::collection::vec(any::<u8>(), 0..12), 1 => proptest::collection::vec(any::<u8>(), 250..260)],
        ),
        0..5,
    )
    .prop_map(|v| v.into_iter().filter(|(t, _)| *t != TLV_META).map(|(t, b)| (t, Hx(b))).collect())
}

/// metadata that strictly decodes but carries no invoice, or does not decode at all
fn unusable_meta() -> impl Strategy<Value = Vec<u8>> {
    prop_oneof![
        2 => proptest::collection::vec((prop_oneof![Just(1u64), Just(33003u64), Just(7u64), Just(33002u64)], proptest::collection::vec(any::<u8>(), 0..9)), 0..3).prop_map(|mut r| {
            r.sort_by_key(|x| x.0);
            r.dedup_by_key(|x| x.0);
            encode_stream(&r)
        }),
        1 => Just(vec![0x01, 0x05, 0xaa]),           // length overruns
        1 => Just(vec![0xfd, 0x80, 0xe9, 0xfd, 0xff, 0xff, 0x01]), // 33001 with a length beyond the buffer
        1 => Just(vec![]),
    ]
}

pub fn nontramp_htlc(npay: usize) -> impl Strategy<Value = HtlcSpec> {
    (
        0u8..npay as u8,
        prop_oneof![
            3 => Just((true, Meta::Normal, false)),          // plain forward carrying a valid trampoline request
            2 => Just((false, Meta::Normal, false)),         // valid trampoline metadata; only non-trampoline when forward_msat is absent (filtered by the classifier otherwise)
            2 => Just((true, Meta::Absent, false)),          // plain forward
            2 => Just((false, Meta::Absent, false)),         // final hop without TLV 16
            1 => Just((false, Meta::NotUtf8, false)),
            1 => Just((false, Meta::NotBolt11, false)),
            3 => garbage_invoice_strategy().prop_map(|g| (false, Meta::GarbageInvoice(g), false)),
            2 => Just((false, Meta::BadSig, false)),
            2 => Just((false, Meta::Normal, true)),          // invoice of another hash
            2 => any::<bool>().prop_map(|b| (false, Meta::LenPrefixed { with_invoice: b }, false)),
            1 => any::<bool>().prop_map(|b| (true, Meta::LenPrefixed { with_invoice: b }, false)),
            3 => unusable_meta().prop_map(|b| (false, Meta::RawMeta(Hx(b)), false)),
            1 => Just((false, Meta::WithAmount(Hx(vec![9, 9, 9])), false)), // amount field disagreeing (fixed) — see fixup
        ],
        extra_records(),
        1u64..3_000_000,
        any::<bool>(),
        prop_oneof![5 => Just(false), 1 => Just(true)],
    )
        .prop_map(move |(pay, (forward, meta, other_hash), extra, amount, with_total, no_forward_msat)| HtlcSpec {
            pay,
            hash_of: if other_hash { Some((pay + 1) % (npay as u8).max(2)) } else { None },
            amount_msat: amount,
            total_msat: if with_total { Some(amount) } else { None },
            // a well-formed trampoline request *without* forward_msat is not a trampoline request either
            forward_msat: if no_forward_msat { None } else { Some(amount) },
            cltv_expiry: 1000 + 1100,
            cltv_rel: 1100,
            forward,
            meta,
            extra,
            raw_payload: None,
        })
}

fn pay_spec(i: usize, amountless: bool) -> PaymentSpec {
    PaymentSpec { preimage_hi: 0, preimage: 0x11 * (i as u8 + 1), invoice_amount: if amountless { None } else { Some(1_000_000) }, tlv_amount: 1_000_000, hints: Hints::None, explicit_payee: false, recipient_ok: true, drain_parts: 1 }
}

fn c13_strategy() -> impl Strategy<Value = Scenario> {
    (proptest::collection::vec(nontramp_htlc(2), 1..5), any::<u64>(), any::<bool>()).prop_map(|(htlcs, seed, amountless)| {
        let mut scn = blank(vec![pay_spec(0, amountless), pay_spec(1, false)], htlcs, seed);
        // keep only HTLCs the reference classifier calls non-trampoline
        let keep: Vec<bool> = (0..scn.htlcs.len()).map(|i| scn.classify(i) == Class::NonTrampoline).collect();
        let mut i = 0;
        scn.htlcs.retain(|_| {
            i += 1;
            keep[i - 1]
        });
        scn
    })
}

pub fn blank(payments: Vec<PaymentSpec>, htlcs: Vec<HtlcSpec>, seed: u64) -> Scenario {
    Scenario {
        cfg: Cfg::default(),
        payments,
        htlcs,
        steps: vec![],
        write_faults: vec![],
        read_faults: vec![],
        start_height: 1000,
        tokio_seed: seed,
        c16_profile: false,
        probe: false,
        direct: vec![],
        initial_parts: vec![],
        manual_getinfo: false,
        crash_at: vec![],
        freeze: None,
        hold: vec![],
        freeze_polls: false,
        initial_pending: vec![],
        ds_read_faults: vec![],
        initial_succeeded: vec![],
        cfg_later: None,
        notif_stall: false,
        pay_opts: None,
        fail_store: None,
    }
}

fn case(scn: &Scenario) -> CaseReport {
    let mut w = World::new(scn.clone());
    w.run();
    let trace = abstract_trace(&w);
    let log = w.log();
    let rpcs = log.iter().filter(|r| matches!(&r.ev, Ev::RpcArrive { .. })).count();
    let stored = w.shared.lock().unwrap().node.datastore.len();
    let out = WorldOut { violations: std::mem::take(&mut w.mon.violations), stats: w.mon.stats.clone(), fp: w.mon.trace_fp ^ fp_of(&scn.htlcs.iter().map(|h| scn.payload_hex(h)).collect::<Vec<_>>()), inconclusive: w.inconclusive, truncated: w.truncated, trace };
    let st = out.stats.clone();
    let mut rep = report_for("C13", scn, out, |_| true, |_| vec![]);
    if rpcs > 0 || stored > 0 {
        rep.violations.push(Violation::new("C13", "side_effect_for_non_trampoline_htlc", format!("{rpcs} RPC requests and {stored} datastore entries although every HTLC of the scenario is a non-trampoline HTLC")));
    }
    rep.nontrivial = st.nontramp_multi_record > 0 || st.rewrite_branch > 0;
    if st.rewrite_branch > 0 {
        rep.classes.push("rewrite_branch_taken".into());
    }
    if st.nontramp_multi_record > 0 {
        rep.classes.push("payload_with_2_or_more_records".into());
    }
    if scn.htlcs.iter().any(|h| h.forward) {
        rep.classes.push("plain_forward".into());
    }
    if scn.htlcs.iter().any(|h| h.hash_of.is_some()) {
        rep.classes.push("invoice_of_other_hash".into());
    }
    rep
}

// ---------------------------------------------------------------- metamorphic relation

#[derive(Clone, Debug, serde::Serialize, serde::Deserialize)]
pub struct Meta13 {
    pub base: Scenario,
    /// (position in the delivery order, HTLC) to insert
    pub inserts: Vec<(u16, HtlcSpec)>,
}

fn mask_digits(s: &str) -> String {
    // attempt ids / timestamps differ between runs
    let mut out = String::new();
    let mut run = String::new();
    for c in s.chars() {
        if c.is_ascii_digit() {
            run.push(c);
        } else {
            if run.len() >= 9 {
                out.push_str("<n>");
            } else {
                out.push_str(&run);
            }
            run.clear();
            out.push(c);
        }
    }
    if run.len() >= 9 {
        out.push_str("<n>");
    } else {
        out.push_str(&run);
    }
    out
}

/// what the node and the senders can observe of a run: RPC requests (normalised) and the answers per HTLC
pub fn observable(w: &World, keep: &dyn Fn(usize) -> Option<usize>, hash_filter: Option<[u8; 32]>) -> Vec<String> {
    let mut out = vec![];
    for r in w.log() {
        match &r.ev {
            Ev::RpcArrive { method, params, hash, .. } => {
                if hash_filter.is_some() && *hash != hash_filter {
                    continue;
                }
                let mut p = params.clone();
                if let Some(o) = p.as_object_mut() {
                    o.remove("label");
                }
                out.push(format!("rpc {method} {}", mask_digits(&p.to_string())));
            }
            Ev::HtlcAnswer { h, resp } => {
                if let Some(id) = keep(*h) {
                    out.push(format!("htlc#{id} <- {resp}"));
                }
            }
            _ => {}
        }
    }
    out
}

fn meta_strategy() -> impl Strategy<Value = Meta13> {
    let prof = Profile { crashes: false, write_faults: false, read_faults: false, heights: false, w_nontramp: 0, w_hash_mismatch: 0, w_self_hint: 0, steps: 0..1, max_payments: 2, ..Profile::default() };
    (scenario_strategy(prof), proptest::collection::vec((any::<u16>(), nontramp_htlc(2)), 1..4)).prop_map(|(mut base, inserts)| {
        base.steps.clear();
        // the relation needs a race-free base: no withheld RPCs (a withheld state fetch lets a funded set and a
        // rejecting HTLC race in the lifecycle's select!, whose random choice is legitimately run-dependent)
        base.hold.clear();
        Meta13 { base, inserts }
    })
}

fn meta_case(m: &Meta13) -> CaseReport {
    let base = &m.base;
    let mut variant = base.clone();
    // insert; remember where the base HTLCs end up
    let mut origin: Vec<Option<usize>> = (0..base.htlcs.len()).map(Some).collect();
    let mut inserted = 0;
    for (pos, h) in &m.inserts {
        let mut h = h.clone();
        h.pay %= base.payments.len() as u8;
        if let Some(x) = h.hash_of {
            if base.payments.len() < 2 {
                h.hash_of = None;
                h.meta = Meta::Absent;
            } else {
                h.hash_of = Some(x % base.payments.len() as u8);
            }
        }
        let at = pick(*pos, variant.htlcs.len() + 1);
        variant.htlcs.insert(at, h);
        origin.insert(at, None);
        if variant.classify(at) != Class::NonTrampoline {
            variant.htlcs.remove(at);
            origin.remove(at);
        } else {
            inserted += 1;
        }
    }
    let mut wb = World::new(base.clone());
    wb.run();
    let mut wv = World::new(variant.clone());
    wv.run();
    let ob = observable(&wb, &|h| Some(h), None);
    let org = origin.clone();
    let ov = observable(&wv, &move |h| org.get(h).cloned().flatten(), None);
    let mut rep = CaseReport::default();
    rep.violations = wv.mon.violations.iter().filter(|v| v.prop == "C13").cloned().collect();
    if ob != ov {
        let first = ob.iter().zip(ov.iter()).position(|(a, b)| a != b).unwrap_or(ob.len().min(ov.len()));
        rep.violations.push(Violation::new(
            "C13",
            "non_trampoline_htlcs_changed_other_payments",
            format!("inserting {inserted} non-trampoline HTLCs changed the observable trace at position {first}: base {:?} vs variant {:?}", ob.get(first), ov.get(first)),
        ));
    }
    rep.nontrivial = inserted > 0 && wb.mon.stats.pays > 0;
    rep.fingerprint = wv.mon.trace_fp;
    rep.classes.push(format!("inserted_{inserted}"));
    if wb.mon.stats.pays > 0 {
        rep.classes.push("base_paid".into());
    }
    rep.inconclusive = wb.inconclusive || wv.inconclusive;
    if rep.nontrivial {
        rep.sample = Some(json!({"base": describe(base), "inserted": m.inserts.iter().map(|(p, h)| format!("at {p}: fwd={} meta={:?} hash_of={:?}", h.forward, h.meta, h.hash_of)).collect::<Vec<_>>(), "observable": ov.iter().take(30).collect::<Vec<_>>()}));
    }
    rep
}

pub fn run(tier: Tier, seed: u64) -> i32 {
    let rule = "WORLD: (a) scenarios made only of non-trampoline HTLCs (plain forwards with arbitrary valid TLV payloads incl. ones carrying a valid trampoline request; final hops without TLV 16; TLV 16 that is not a TLV stream / has no 33001; unusable invoices; invoice of another hash; length-prefixed metadata with 33003/33001 = the only shape that reaches the payload-rewrite branch). Oracle: `continue` in the delivery instant, zero RPC requests, empty datastore; a rewritten payload equals the input records minus type 16, byte for byte. (b) metamorphic: inserting such HTLCs (sharing hashes with real payments) into a base scenario leaves the base's RPC requests and HTLC answers unchanged. Non-trivial: payload with >=2 records or rewrite branch taken (a), base issued a pay and >=1 HTLC inserted (b). E2E (thorough): the same through the binary.";
    let mut s = Session::new("C13", tier, seed, "exploration", rule);
    for a in ASSUMPTIONS {
        s.assume(a);
    }
    s.regress::<Scenario, _>("world", case);
    s.regress::<Meta13, _>("world-metamorphic", meta_case);
    s.search("world-nontrampoline-only", "world", tier.pick(1200, 30000), c13_strategy, case);
    s.search("world-metamorphic", "world-metamorphic", tier.pick(300, 10000), meta_strategy, meta_case);
    // non-trampoline HTLCs arriving while real payments have RPCs outstanding (generic scheduled scenarios):
    // they must still be answered in their delivery instant
    let mixed = Profile { w_nontramp: 30, w_reject: 3, w_hash_mismatch: 8, max_payments: 2, max_parts: 4, ..Profile::default() };
    let mixed_case = world_case("C13", |st| st.nontramp_answered > 0 && st.pays > 0, |st| if st.nontramp_answered > 0 { vec!["non_trampoline_beside_payments".into()] } else { vec![] });
    s.search("world-mixed-schedules", "world-mixed", tier.pick(400, 8000), move || scenario_strategy(mixed.clone()), &mixed_case);
    if tier == Tier::Thorough {
        crate::e2e::c13_e2e(&mut s);
    }
    s.finish()
}

pub fn replay(engine: &str, case_v: serde_json::Value) -> Option<CaseReport> {
    match engine {
        "world" => Some(case(&serde_json::from_value(case_v).ok()?)),
        "world-metamorphic" => Some(meta_case(&serde_json::from_value(case_v).ok()?)),
        "world-mixed" => replay_world("C13", case_v),
        _ => None,
    }
}
