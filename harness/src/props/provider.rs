//! C15 / C16 — unit worlds: only PayPaymentProvider<Rpc> against the simulated node.
use crate::gen::*;
use crate::monitors::Stats;
use crate::props::worldprops::*;
use crate::runner::*;
use crate::scen::*;
use proptest::prelude::*;
use serde_json::json;

fn unit_scenario(direct: Direct, initial_parts: Vec<(u8, u16)>, steps: Vec<Step>, recipient_ok: bool, seed: u64, c16: bool, drain_parts: u8) -> Scenario {
    Scenario {
        cfg: Cfg::default(),
        payments: vec![PaymentSpec { preimage_hi: 0, preimage: 0x11, invoice_amount: Some(1_000_000), tlv_amount: 1_000_000, hints: Hints::None, explicit_payee: false, recipient_ok, drain_parts }],
        htlcs: vec![],
        steps,
        write_faults: vec![],
        read_faults: vec![],
        start_height: 1000,
        tokio_seed: seed,
        c16_profile: c16,
        probe: false,
        direct: vec![direct],
        initial_parts,
        manual_getinfo: false,
        crash_at: vec![],
        freeze: None,
        hold: vec![],
        freeze_polls: false,
        initial_pending: vec![],
        ds_read_faults: vec![],
        initial_succeeded: vec![],
        cfg_later: None,
        notif_stall: false,
        pay_opts: None,
        fail_store: None,
    }
}

fn part_status() -> impl Strategy<Value = u16> {
    // 0 pending, 1 complete, n>=2 failed with code 200+n
    prop_oneof![5 => Just(0u16), 1 => Just(1u16), 3 => proptest::sample::select(&[2u16, 3, 4, 9][..])]
}

fn part_outcome() -> impl Strategy<Value = PartOutcome> {
    prop_oneof![2 => Just(PartOutcome::Complete), 3 => proptest::sample::select(&[202i32, 203, 204, 209][..]).prop_map(PartOutcome::Fail)]
}

fn c15_strategy() -> impl Strategy<Value = Scenario> {
    (
        proptest::collection::vec(part_status(), 0..=4),
        proptest::collection::vec(
            prop_oneof![
                10 => any::<u16>().prop_map(Step::Answer),
                8 => (any::<u16>(), part_outcome()).prop_map(|(i, o)| Step::Part(i, o)),
                2 => prop_oneof![Just(Step::Tick(1)), Just(Step::Tick(13))],
                // RPC-level failures: a waitsendpay that errors while its part is still in flight, a failing list query
                2 => (any::<u16>(), proptest::sample::select(&[-1i32, 200, 400][..])).prop_map(|(i, c)| Step::FailWait(i, c)),
                1 => (any::<u16>(), proptest::sample::select(&[-1i32, 400][..])).prop_map(|(i, c)| Step::AnswerErr(i, c)),
            ],
            0..14,
        ),
        any::<bool>(),
        any::<u64>(),
    )
        .prop_map(|(parts, steps, ok, seed)| unit_scenario(Direct::WaitPayment(0), parts.into_iter().map(|s| (0u8, s)).collect(), steps, ok, seed, false, 1))
}

fn c15_exhaustive(maxlen: usize) -> Vec<Scenario> {
    let alphabet: Vec<Step> = vec![
        Step::Answer(0),
        Step::Answer(65535),
        Step::Part(0, PartOutcome::Complete),
        Step::Part(0, PartOutcome::Fail(203)),
        Step::Part(65535, PartOutcome::Complete),
        Step::Part(65535, PartOutcome::Fail(209)),
    ];
    let mut out = vec![];
    for nparts in 1..=2usize {
        for len in 0..=maxlen {
            let mut idx = vec![0usize; len];
            loop {
                let steps: Vec<Step> = idx.iter().map(|i| alphabet[*i].clone()).collect();
                for ok in [true, false] {
                    out.push(unit_scenario(Direct::WaitPayment(0), vec![(0, 0); nparts], steps.clone(), ok, 7, false, 1));
                }
                let mut k = 0;
                while k < len {
                    idx[k] += 1;
                    if idx[k] < alphabet.len() {
                        break;
                    }
                    idx[k] = 0;
                    k += 1;
                }
                if k == len {
                    break;
                }
            }
        }
    }
    out
}

pub fn run_c15(tier: Tier, seed: u64) -> i32 {
    let rule = "Unit world (real PayPaymentProvider<Rpc> + simulated node): 0-4 parts in arbitrary initial states, part completions/failures (codes 202/203/204/209) interleaved at every position among the answers of the two list queries and the waitsendpay calls; exhaustive over all event sequences up to length 4 (quick) / 6 (thorough) for 1-2 pending parts. Oracle at return: Some(p) => a part is complete with preimage p; None => nothing pending or complete at that instant; Err is a violation unless an RPC-level error was injected in that case (waitsendpay answered -1/200/400 while its part is in flight, a failing list query): those may end the wait with Err, never with None while a part is live. Non-trivial: a part changed status after the first list answer and before the return; distinct by abstract trace hash.";
    let mut s = Session::new("C15", tier, seed, "exploration", rule);
    s.assume("node model: listsendpays is a snapshot at the instant it is answered; waitsendpay is held while its part is pending");
    let nontrivial: fn(&Stats) -> bool = |st| st.part_changed_during_wait > 0;
    let classes: fn(&Stats) -> Vec<String> = |st| if st.parts_completed > 0 { vec!["part_completed".into()] } else { vec![] };
    let case = world_case("C15", nontrivial, classes);
    s.regress::<Scenario, _>("world", &case);
    s.enumerate("exhaustive-small-scope", "world", c15_exhaustive(tier.pick(4, 6)), &case);
    s.extra.insert("exhaustive_small_scope".into(), json!(format!("1-2 pending parts x all sequences over 6 events (answer first/last RPC, first/last pending part completes/fails) up to length {} x recipient fate", tier.pick(4, 6))));
    s.search("proptest", "world", tier.pick(1500, 40000), c15_strategy, &case);
    s.finish()
}

fn pay_outcome() -> impl Strategy<Value = PayOutcome> {
    prop_oneof![
        2 => Just(PayOutcome::Complete),
        3 => proptest::sample::select(&[203i32, 205, 206, 207, 210][..]).prop_map(PayOutcome::Error),
        1 => Just(PayOutcome::Garbled),
        2 => any::<bool>().prop_map(|b| PayOutcome::Pending { with_preimage: b }),
        3 => any::<bool>().prop_map(|b| PayOutcome::Failed { warning: b }),
    ]
}

fn c16_strategy() -> impl Strategy<Value = Scenario> {
    (
        proptest::collection::vec(prop_oneof![3 => Just(0u16), 1 => Just(2u16)], 0..=1),
        proptest::collection::vec(
            prop_oneof![
                4 => any::<u16>().prop_map(Step::Answer),
                4 => any::<u16>().prop_map(Step::PayPart),
                4 => (any::<u16>(), part_outcome()).prop_map(|(i, o)| Step::Part(i, o)),
                3 => (any::<u16>(), pay_outcome()).prop_map(|(i, o)| Step::PayFinish(i, o)),
                1 => Just(Step::Tick(13)),
            ],
            0..14,
        ),
        any::<bool>(),
        any::<u64>(),
        0u8..3,
    )
        .prop_map(|(parts, steps, ok, seed, dp)| unit_scenario(Direct::Pay(0), parts.into_iter().map(|s| (0u8, s)).collect(), steps, ok, seed, true, dp))
}

/// outcome x part configuration x order of later resolutions
fn c16_cartesian() -> Vec<Scenario> {
    let outcomes = [
        PayOutcome::Complete,
        PayOutcome::Error(210),
        PayOutcome::Error(203),
        PayOutcome::Garbled,
        PayOutcome::Pending { with_preimage: true },
        PayOutcome::Pending { with_preimage: false },
        PayOutcome::Failed { warning: true },
        PayOutcome::Failed { warning: false },
    ];
    // part configurations as step prefixes
    let c = PartOutcome::Complete;
    let f = PartOutcome::Fail(203);
    let configs: Vec<(&str, Vec<Step>)> = vec![
        ("none", vec![]),
        ("pending", vec![Step::PayPart(0)]),
        ("failed", vec![Step::PayPart(0), Step::Part(0, f)]),
        ("complete", vec![Step::PayPart(0), Step::Part(0, c)]),
        ("pending+failed", vec![Step::PayPart(0), Step::Part(0, f), Step::PayPart(0)]),
        ("pending+pending", vec![Step::PayPart(0), Step::PayPart(0)]),
        ("complete+pending", vec![Step::PayPart(0), Step::PayPart(0), Step::Part(0, c)]),
        ("failed+complete", vec![Step::PayPart(0), Step::PayPart(0), Step::Part(0, f), Step::Part(0, c)]),
    ];
    let laters: Vec<Vec<Step>> = vec![
        vec![],
        vec![Step::Flush, Step::Part(0, c)],
        vec![Step::Flush, Step::Part(0, f)],
        vec![Step::Answer(0), Step::Part(65535, c), Step::Flush, Step::Part(0, f)],
        vec![Step::Answer(0), Step::Part(0, f), Step::Answer(0), Step::Part(0, c)],
    ];
    let mut out = vec![];
    for o in outcomes {
        for (_, cfg) in &configs {
            for later in &laters {
                for ok in [true, false] {
                    let mut steps = vec![Step::Flush];
                    steps.extend(cfg.clone());
                    steps.push(Step::PayFinish(0, o));
                    steps.extend(later.clone());
                    out.push(unit_scenario(Direct::Pay(0), vec![], steps, ok, 11, true, 0));
                }
            }
        }
    }
    out
}

pub fn run_c16(tier: Tier, seed: u64) -> i32 {
    let rule = "Unit world (real PayPaymentProvider<Rpc>::pay + simulated node): cartesian product of pay outcome {complete, RPC error 210/203, unparsable result, pending with/without preimage, failed with/without warning} x part configuration {none, pending, failed, complete, mixtures} x order of later resolutions x recipient fate, plus generated step sequences. Oracle at return: Ok(p) => p is the preimage of a complete part; Err => no part pending or complete at that instant. Non-trivial: the pay outcome left >=1 part pending or complete; distinct by abstract trace hash.";
    let mut s = Session::new("C16", tier, seed, "exploration", rule);
    s.assume("only in this check the node may answer pay with status `failed` in any part configuration (the property quantifies over it); follow-up RPC errors are not injected");
    let nontrivial: fn(&Stats) -> bool = |st| st.pay_left_live > 0;
    let classes: fn(&Stats) -> Vec<String> = |st| if st.parts_completed > 0 { vec!["part_completed".into()] } else { vec![] };
    let case = world_case("C16", nontrivial, classes);
    s.regress::<Scenario, _>("world", &case);
    s.enumerate("cartesian", "world", c16_cartesian(), &case);
    s.search("proptest", "world", tier.pick(1500, 40000), c16_strategy, &case);
    s.finish()
}
