//! WORLD-engine checks: one scenario generator (profile per property), one
//! driver, all monitors; each check reports only its own property's monitor.
use crate::monitors::Stats;
use crate::runner::*;
use crate::scen::*;
use crate::world::{Ev, World};
use serde_json::{json, Value};

pub struct WorldOut {
    pub violations: Vec<Violation>,
    pub stats: Stats,
    pub fp: u64,
    pub inconclusive: bool,
    pub truncated: bool,
    pub trace: Vec<String>,
}

pub fn abstract_trace(w: &World) -> Vec<String> {
    let log = w.log();
    let mut out = vec![];
    for r in log.iter() {
        let t = format!("{:.3}", r.t_ms as f64 / 1000.0);
        let s = match &r.ev {
            Ev::LifetimeStart => format!("[{t}] lifetime {} starts", r.life),
            Ev::Deliver { h, replay } => format!("[{t}] deliver htlc{h}{}", if *replay { " (replay)" } else { "" }),
            Ev::HtlcAnswer { h, resp } => format!("[{t}] htlc{h} <- {}", short(resp)),
            Ev::HtlcUndeserialisable { h, err } => format!("[{t}] htlc{h} request not deserialisable: {err}"),
            Ev::HtlcPanic { h } => format!("[{t}] htlc{h} handler PANIC"),
            Ev::RpcArrive { uid, method, hash, .. } => format!("[{t}] rpc#{uid} {method} arrives {}", hash.map(|h| hex::encode(&h[..3])).unwrap_or_default()),
            Ev::RpcAnswer { uid, method, ok, applied, fault, .. } => {
                format!("[{t}] rpc#{uid} {method} answered {}{}{}", if *ok { "ok" } else { "ERR" }, if *applied { " (applied)" } else { "" }, if *fault { " [injected fault]" } else { "" })
            }
            Ev::PartNew { part, hash, .. } => format!("[{t}] part{part} created for {}", hex::encode(&hash[..3])),
            Ev::PartResolved { part, status, .. } => format!("[{t}] part{part} -> {status:?}"),
            Ev::Tick { secs } => format!("[{t}] tick {secs}s"),
            Ev::HeightTold { h, via } => format!("[{t}] height {h} told via {via}"),
            Ev::NodeHeight { h } => format!("[{t}] node height {h}"),
            Ev::Crash { down_s, lose_last } => format!("[{t}] CRASH (down {down_s}s, lose_last={lose_last})"),
            Ev::ClockBack { secs } => format!("[{t}] wall clock stepped back {secs}s during the downtime"),
            Ev::Notify { .. } => format!("[{t}] failure notification"),
            Ev::Panic { msg } => format!("[{t}] PANIC {}", &msg[..msg.len().min(100)]),
            Ev::CallResult { call, result } => format!("[{t}] call{call} returned {result}"),
            Ev::HeightRead { h } => format!("[{t}] height read {h}"),
            Ev::DrainStart => format!("[{t}] -- drain --"),
            Ev::ProbeStart { h } => format!("[{t}] -- probe htlc{h} --"),
            Ev::End => format!("[{t}] end"),
        };
        out.push(s);
    }
    out
}

fn short(v: &Value) -> String {
    match v["result"].as_str() {
        Some("continue") => match v.get("payload") {
            Some(p) => format!("continue payload={}", p),
            None => "continue".into(),
        },
        Some("fail") => format!("fail {}", v["failure_message"].as_str().unwrap_or("?")),
        Some("resolve") => format!("resolve {}..", &v["payment_key"].as_str().unwrap_or("????????")[..8]),
        _ => v.to_string(),
    }
}

pub fn run_world(scn: &Scenario) -> WorldOut {
    let mut w = World::new(scn.clone());
    w.run();
    let trace = abstract_trace(&w);
    WorldOut { violations: std::mem::take(&mut w.mon.violations), stats: w.mon.stats.clone(), fp: w.mon.trace_fp, inconclusive: w.inconclusive, truncated: w.truncated, trace }
}

pub fn describe(scn: &Scenario) -> Value {
    json!({
        "cfg": scn.cfg,
        "payments": scn.payments.iter().map(|p| format!("pre={:02x} inv_amount={:?} tlv={} hints={:?} recipient_ok={} parts={}", p.preimage, p.invoice_amount, p.tlv_amount, p.hints, p.recipient_ok, p.drain_parts)).collect::<Vec<_>>(),
        "htlcs": scn.htlcs.iter().enumerate().map(|(i, h)| format!("htlc{i}: pay={} hash_of={:?} amt={} total={:?} rel={} exp={} meta={:?} fwd={}", h.pay, h.hash_of, h.amount_msat, h.total_msat, h.cltv_rel, h.cltv_expiry, h.meta, h.forward)).collect::<Vec<_>>(),
        "steps": scn.steps.len(),
        "write_faults": scn.write_faults,
        "read_faults": scn.read_faults,
    })
}

/// CaseReport for property `prop` with its non-triviality rule applied to the run's stats.
pub fn report_for(prop: &str, scn: &Scenario, out: WorldOut, nontrivial: impl Fn(&Stats) -> bool, classes: impl Fn(&Stats) -> Vec<String>) -> CaseReport {
    let nt = nontrivial(&out.stats);
    let mut cls = classes(&out.stats);
    if out.truncated {
        cls.push("truncated_by_drift".into());
    }
    if out.stats.crashes > 0 {
        cls.push("had_restart".into());
    }
    if out.stats.pays > 0 {
        cls.push("pay_issued".into());
    }
    if out.stats.resolves > 0 {
        cls.push("resolved".into());
    }
    if out.stats.write_faults_hit > 0 {
        cls.push("write_fault_hit".into());
    }
    if out.stats.read_faults_hit > 0 {
        cls.push("read_fault_hit".into());
    }
    let sample = if nt || out.violations.iter().any(|v| v.prop == prop) {
        let mut tr = out.trace.clone();
        if tr.len() > 70 {
            let tail = tr.split_off(tr.len() - 10);
            tr.truncate(58);
            tr.push("...".into());
            tr.extend(tail);
        }
        Some(json!({"scenario": describe(scn), "trace": tr}))
    } else {
        None
    };
    CaseReport { violations: out.violations, nontrivial: nt, fingerprint: out.fp, classes: cls, inconclusive: out.inconclusive, sample }
}

// ------------------------------------------------------------------ generic WORLD check

pub struct WorldCheck {
    pub prop: &'static str,
    pub level: &'static str,
    pub rule: &'static str,
    pub profile: Profile,
    pub thorough_profile: Option<Profile>,
    pub cases_quick: u32,
    pub cases_thorough: u32,
    pub nontrivial: fn(&Stats) -> bool,
    pub classes: fn(&Stats) -> Vec<String>,
}

pub const ASSUMPTIONS: &[&str] = &[
    "node model (DESIGN.md section 4): RPCs are atomic at the instant they are answered; a part completes only with the true preimage and never leaves complete/failed; an RPC error from pay means the command has terminated; a crash kills running pay commands and all plugin tasks, datastore and parts survive",
    "HTLC amounts of one scenario sum to less than the bitcoin supply; amounts are clamped so that amount*ppm fits u64 (the known C12 finding is excluded by construction)",
    "interleavings are those at .await points of a current-thread runtime; select! choices are seeded from the scenario",
    "wall clock is only visible to the plugin through stored attempt times, which the harness ages by the virtual downtime on a 5 s grid",
];

fn flag(v: &mut Vec<String>, cond: bool, name: &str) {
    if cond {
        v.push(name.into());
    }
}

pub fn world_case(prop: &'static str, nontrivial: fn(&Stats) -> bool, classes: fn(&Stats) -> Vec<String>) -> impl Fn(&Scenario) -> CaseReport + Sync {
    move |scn: &Scenario| {
        let out = run_world(scn);
        report_for(prop, scn, out, nontrivial, classes)
    }
}

/// Structured generator for the overlap of two lifecycles of ONE hash: a first funded set whose payment
/// fails (with or without failed parts), a second funded set for the same invoice, and one RPC of the
/// first lifecycle's bookkeeping withheld for a generated number of effects.
pub fn overlap_strategy() -> proptest::strategy::BoxedStrategy<Scenario> {
    use proptest::prelude::*;
    let d = Profile { crashes: true, w_crash: 3, write_faults: false, heights: false, steps: 0..12, ..Profile::default() };
    (
        any::<bool>(),
        1u8..=2,
        prop_oneof![Just(PayOutcome::Error(210)), Just(PayOutcome::Error(205)), Just(PayOutcome::Garbled)],
        0u8..3,
        (4u16..10, 5u16..36, 0u8..3, any::<bool>()),
        proptest::collection::vec(step_strategy(&d), 0..12),
        any::<u64>(),
        any::<bool>(),
        proptest::sample::select(&[10u64, 60, 120][..]),
    )
        .prop_map(|(recipient_ok, drain_parts, outcome, failed_parts, (hk, hm, pending_parts, long_tick), tail, seed, amountless, mpp)| {
            let hold = (hk, hm);
            let cfg = Cfg { mpp_timeout_s: mpp, ..Cfg::default() };
            let pay = PaymentSpec { preimage_hi: 0, preimage: 0x11, invoice_amount: if amountless { None } else { Some(1_000_000) }, tlv_amount: 1_000_000, hints: Hints::None, explicit_payee: false, recipient_ok, drain_parts };
            let need = needed_total(&cfg, 1_000_000);
            let h = |exp: u32| HtlcSpec { pay: 0, hash_of: None, amount_msat: need, total_msat: Some(need), forward_msat: Some(need), cltv_expiry: 1000 + 1100 + exp, cltv_rel: 1100, forward: false, meta: Meta::Normal, extra: vec![], raw_payload: None };
            let mut steps = vec![Step::Deliver(0), Step::Flush];
            for _ in 0..failed_parts {
                steps.push(Step::PayPart(0));
                steps.push(Step::Part(0, PartOutcome::Fail(203)));
            }
            // parts still in flight when the pay command gives up
            for _ in 0..pending_parts {
                steps.push(Step::PayPart(0));
            }
            steps.push(Step::PayFinish(0, outcome));
            if long_tick {
                // long enough for a waitsendpay that was given a timeout to run into it
                steps.push(Step::Flush);
                steps.push(Step::Tick(13));
                steps.push(Step::Flush);
            }
            steps.extend(tail);
            let mut scn = crate::props::c13::blank(vec![pay], vec![h(0), h(1), h(2)], seed);
            scn.cfg = cfg;
            scn.steps = steps;
            scn.hold = vec![hold];
            scn
        })
        .boxed()
}

/// C11: one hash sees 1-3 complete sets whose payment fails, then a partial set. The partial set has
/// no earlier attempt *pending*, so it must be held for the whole MPP timeout.
pub fn after_failed_attempts_strategy() -> proptest::strategy::BoxedStrategy<Scenario> {
    use proptest::prelude::*;
    (1usize..=3, 1usize..=2, any::<bool>(), proptest::sample::select(&[5u64, 10, 30, 60][..]), any::<u64>(), 0u8..3, proptest::collection::vec(prop_oneof![3 => Just(0u8), 1 => 1u8..=14], 6))
        .prop_map(|(failed_attempts, partial_parts, amountless, mpp, seed, drain_parts, ticks)| {
            let cfg = Cfg { mpp_timeout_s: mpp, ..Cfg::default() };
            let pay = PaymentSpec { preimage_hi: 0, preimage: 0x11, invoice_amount: if amountless { None } else { Some(1_000_000) }, tlv_amount: 1_000_000, hints: Hints::None, explicit_payee: false, recipient_ok: false, drain_parts };
            let need = needed_total(&cfg, 1_000_000);
            let h = |amount: u64, total: u64| HtlcSpec { pay: 0, hash_of: None, amount_msat: amount, total_msat: Some(total), forward_msat: Some(amount), cltv_expiry: 1000 + 1100, cltv_rel: 1100, forward: false, meta: Meta::Normal, extra: vec![], raw_payload: None };
            let mut htlcs = vec![];
            let mut steps = vec![];
            let mut ti = 0;
            for _ in 0..failed_attempts {
                htlcs.push(h(need, need));
                steps.push(Step::Deliver(0));
                steps.push(Step::Flush);
                steps.push(Step::PayFinish(0, PayOutcome::Error(210)));
                steps.push(Step::Flush);
                if ticks[ti % ticks.len()] > 0 {
                    steps.push(Step::Tick(ticks[ti % ticks.len()]));
                }
                ti += 1;
            }
            for _ in 0..partial_parts {
                htlcs.push(h(need / 4, need));
                steps.push(Step::Deliver(0));
                steps.push(Step::Flush);
                if ticks[ti % ticks.len()] > 0 && ticks[ti % ticks.len()] < 3 {
                    steps.push(Step::Tick(ticks[ti % ticks.len()]));
                }
                ti += 1;
            }
            let mut scn = crate::props::c13::blank(vec![pay], htlcs, seed);
            scn.cfg = cfg;
            scn.steps = steps;
            scn
        })
        .boxed()
}

pub fn run_world_check(c: WorldCheck, tier: Tier, seed: u64) -> i32 {
    let mut s = Session::new(c.prop, tier, seed, c.level, c.rule);
    for a in ASSUMPTIONS {
        s.assume(a);
    }
    let case = world_case(c.prop, c.nontrivial, c.classes);
    s.regress::<Scenario, _>("world", &case);
    let prof = c.profile.clone();
    s.search("world", "world", tier.pick(c.cases_quick, c.cases_thorough), move || scenario_strategy(prof.clone()), &case);
    if c.prop == "C11" {
        // a crash at every point of histories "attempt fails, then a partial set arrives", in every crash flavour incl.
        // "the wall clock was stepped back while down" (254) and a very long outage (255): the time a restart grants
        {
            use proptest::strategy::{Strategy, ValueTree};
            use proptest::test_runner::{Config, RngAlgorithm, TestRng, TestRunner};
            let mut bytes = [11u8; 32];
            bytes[..8].copy_from_slice(&seed.to_le_bytes());
            let mut runner = TestRunner::new_with_rng(Config::default(), TestRng::from_seed(RngAlgorithm::ChaCha, &bytes));
            let strat = after_failed_attempts_strategy();
            let mut all = vec![];
            for _ in 0..tier.pick(4, 60) {
                let b = strat.new_tree(&mut runner).unwrap().current();
                if b.cfg.mpp_timeout_s == 0 {
                    continue;
                }
                for v in family(&b) {
                    if let Some((k, 0, false)) = v.crash_at.first().cloned() {
                        let mut back = v.clone();
                        back.crash_at = vec![(k, 254, false)];
                        all.push(back);
                    }
                    if !v.crash_at.is_empty() {
                        all.push(v);
                    }
                }
            }
            s.enumerate("enumerate-crash-points-after-failed-attempts", "world", all, &case);
        }
        use proptest::strategy::Strategy;
        // in half of the histories the failure-notification service (e-mail) never returns
        s.search("world-after-failed-attempts", "world", tier.pick(150, 3000), || (after_failed_attempts_strategy(), proptest::bool::ANY).prop_map(|(mut x, st)| { x.notif_stall = st; x }), &case);
    }
    if matches!(c.prop, "C05" | "C08") {
        // everything main() does at startup, on a datastore that earlier runs filled
        crate::e2e::paid_earlier_e2e(&mut s, c.prop);
    }
    if c.prop == "C02" {
        // replay onto an in-flight payment through the binary, with the notifications the plugin subscribed to
        crate::e2e::c02_e2e_quick(&mut s);
    }
    if c.prop == "C02" && tier == Tier::Thorough {
        // the hook handler and main() are only reachable through the binary: a pay command that takes long
        crate::e2e::c02_e2e(&mut s);
    }
    if matches!(c.prop, "C02" | "C05" | "C08") {
        s.search("world-lifecycle-overlap", "world", tier.pick(300, 4000), overlap_strategy, &case);
        if tier == Tier::Thorough {
            enumerate_faults(&mut s, c.prop, 150, &c.profile, c.nontrivial, c.classes);
            // every RPC of two-attempt histories delayed (bookkeeping of one lifecycle overtaken by the next)
            use proptest::strategy::{Strategy, ValueTree};
            use proptest::test_runner::{Config, RngAlgorithm, TestRng, TestRunner};
            let mut bytes = [9u8; 32];
            bytes[..8].copy_from_slice(&seed.to_le_bytes());
            let mut runner = TestRunner::new_with_rng(Config::default(), TestRng::from_seed(RngAlgorithm::ChaCha, &bytes));
            let strat = overlap_strategy();
            let mut all = vec![];
            for _ in 0..200 {
                let mut b = strat.new_tree(&mut runner).unwrap().current();
                b.hold.clear();
                all.extend(delay_family(&b));
            }
            s.extra.insert("delay_enumeration".into(), json!({"base_histories": 200, "variants": all.len(), "per_base": "every RPC ordinal withheld for 6 / 14 / 30 further node-side effects"}));
            s.enumerate("enumerate-delayed-rpcs", "world", all, &case);
        }
    }
    if matches!(c.prop, "C02" | "C04" | "C05" | "C08" | "C11") {
        // the operator changes options between two runs: policy, safety delta, MPP timeout of the later lifetimes differ
        use proptest::strategy::Strategy;
        let p = Profile { w_crash: 9, ..c.profile.clone() };
        let normal = Profile::default();
        let extreme = Profile { extreme_cfg: true, ..Profile::default() };
        s.search(
            "world-config-changed-across-restart",
            "world",
            tier.pick(150, 3000),
            move || {
                (scenario_strategy(p.clone()), proptest::prop_oneof![2 => cfg_strategy(&normal), 1 => cfg_strategy(&extreme)]).prop_map(|(mut x, mut later)| {
                    later.allow_self = x.cfg.allow_self;
                    // same clamp as for the first configuration: amount * ppm stays below 2^63 (known C12 finding, DESIGN 13.4)
                    let max_amount = x.payments.iter().flat_map(|p| [p.invoice_amount.unwrap_or(0), p.tlv_amount]).chain(x.htlcs.iter().flat_map(|h| [h.amount_msat, h.total_msat.unwrap_or(0), h.forward_msat.unwrap_or(0)])).max().unwrap_or(1).max(1);
                    later.ppm = later.ppm.min((u64::MAX / 2 / max_amount).min(u32::MAX as u64) as u32);
                    x.cfg_later = Some(later);
                    x
                })
            },
            &case,
        );
    }
    if matches!(c.prop, "C01" | "C05" | "C08") {
        // payment 0 was paid by an earlier run of the pinned release: its Succeeded record (that release's stored
        // format) and a complete part exist from the start; replays, late parts and sender retries follow
        use proptest::strategy::Strategy;
        let p = c.profile.clone();
        s.assume("records written by the release this harness is pinned to (stored format of that commit) belong to the input domain: a node is upgraded with its datastore in place");
        s.search("world-paid-by-earlier-run", "world", tier.pick(100, 2000), move || scenario_strategy(p.clone()).prop_map(|mut x| { x.initial_succeeded = vec![0]; x }), &case);
    }
    if matches!(c.prop, "C02" | "C05" | "C08") {
        // the node rejects several datastore writes in a row (3-4): retry loops run out
        let p = Profile { write_fault_bursts: true, w_crash: 7, ..c.profile.clone() };
        s.search("world-write-fault-bursts", "world", tier.pick(150, 3000), move || scenario_strategy(p.clone()), &case);
    }
    if matches!(c.prop, "C05" | "C08") {
        // the stored-state read alone fails (an RPC error is not "nothing stored"): crashes onto Pending records + failing listdatastore
        let p = Profile { ds_read_faults: true, w_crash: 8, ..c.profile.clone() };
        s.search("world-state-read-faults", "world", tier.pick(150, 3000), move || scenario_strategy(p.clone()), &case);
    }
    if matches!(c.prop, "C01" | "C05") {
        crate::props::par::many_phase(&mut s);
    }
    if matches!(c.prop, "C02" | "C05" | "C07" | "C11") {
        crate::props::par::par_phase(&mut s, c.prop);
    }
    if tier == Tier::Thorough {
        if let Some(tp) = c.thorough_profile.clone() {
            s.search("world-thorough-profile", "world", c.cases_thorough / 2, move || scenario_strategy(tp.clone()), &case);
        }
    }
    s.finish()
}

pub fn replay_world(prop: &'static str, case: Value) -> Option<CaseReport> {
    let scn: Scenario = serde_json::from_value(case).ok()?;
    let out = run_world(&scn);
    if std::env::var("VERIF_TRACE").is_ok() {
        println!("{}", serde_json::to_string_pretty(&describe(&scn)).unwrap());
        for l in &out.trace {
            println!("{l}");
        }
    }
    Some(report_for(prop, &scn, out, |_| true, |_| vec![]))
}

pub fn spec(prop: &str) -> Option<WorldCheck> {
    let d = Profile::default();
    Some(match prop {
        "C01" => WorldCheck {
            prop: "C01",
            level: "exploration",
            rule: "WORLD scenarios: 1-3 payments, HTLCs whose metadata carries the invoice of another hash, late HTLCs after success, crashes/restarts, write faults. Oracle at every resolve answer: sha256(key)==htlc hash and a complete part or Succeeded record of that hash exists; at every pay arrival: no held HTLC carrying that invoice has a different hash. Non-trivial: a resolve was produced and the scenario has >=2 hashes or a restart; distinct by abstract trace hash.",
            profile: Profile { max_payments: 3, w_hash_mismatch: 25, w_reject: 4, w_under: 8, ..d.clone() },
            thorough_profile: Some(Profile { max_payments: 3, w_hash_mismatch: 15, max_parts: 4, ..d.clone() }),
            cases_quick: 600,
            cases_thorough: 12000,
            nontrivial: |s| s.resolves > 0 && (s.hashes_with_trampoline >= 2 || s.crashes > 0),
            classes: |s| {
                let mut v = vec![];
                flag(&mut v, s.hashes_with_trampoline >= 2, "two_or_more_hashes");
                flag(&mut v, s.nontramp_answered > 0, "non_trampoline_htlc_present");
                v
            },
        },
        "C02" => WorldCheck {
            prop: "C02",
            level: "fault_enumeration",
            rule: "WORLD histories: pay outcomes leaving parts pending, part resolutions between the RPCs of wait_payment, rejecting HTLCs during payment, crashes with parts pending, single write faults (reject / applied-but-error) at generated positions; thorough adds read faults. Oracle at every fail answer of a trampoline HTLC: no part of the hash pending/complete and no pay running. Non-trivial: an outgoing attempt existed (>=1 pay) and >=1 HTLC was answered after it; distinct by abstract trace hash.",
            profile: Profile { w_crash: 7, w_under: 5, w_reject: 10, ..d.clone() },
            thorough_profile: Some(Profile { w_crash: 7, w_under: 5, read_faults: true, ..d.clone() }),
            cases_quick: 800,
            cases_thorough: 18000,
            nontrivial: |s| s.pays > 0 && s.answered_after_attempt > 0,
            classes: |s| {
                let mut v = vec![];
                flag(&mut v, s.restart_with_pending > 0, "restart_onto_pending_record");
                flag(&mut v, s.parts > 0, "parts_created");
                flag(&mut v, s.parts_completed > 0, "part_completed");
                v
            },
        },
        "C03" => WorldCheck {
            prop: "C03",
            level: "exploration",
            rule: "WORLD: amount multisets around the funding threshold (exact, +-1, far under/over), 1-5 parts, declared totals independent of real amounts, HTLCs arriving while the lifecycle is fetching/recording, restarts. Oracle at every pay arrival: held sum >= amount + base + floor(amount*ppm/1e6) (u128), maxfee <= held sum - amount, amount_msat absent iff invoice has an amount else equal to declared, bolt11 carried by a held HTLC; afterwards no counted HTLC is answered before the payment's fate is known. Non-trivial: a pay was funded by >=2 HTLCs or followed a restart.",
            profile: Profile { max_parts: 5, w_under: 30, w_reject: 4, w_nontramp: 2, ..d.clone() },
            thorough_profile: Some(Profile { max_parts: 5, w_under: 30, extreme_cfg: true, ..d.clone() }),
            cases_quick: 800,
            cases_thorough: 18000,
            nontrivial: |s| s.multi_htlc_pay > 0 || s.pay_after_restart > 0,
            classes: |s| {
                let mut v = vec![];
                flag(&mut v, s.multi_htlc_pay > 0, "pay_funded_by_multiple_htlcs");
                flag(&mut v, s.pay_after_restart > 0, "pay_after_restart");
                v
            },
        },
        "C04" => WorldCheck {
            prop: "C04",
            level: "exploration",
            rule: "WORLD: expiries clustered around height+safety delta+-2 and +-policy delta, heights advancing between HTLCs (notifications and silent changes), extreme delta pairs. Oracle at pay arrival: maxdelay <= min(policy delta, sat(sat(min expiry of HTLCs held at the intent write - height told then) - safety delta) clamped to u16); a low-relative-expiry HTLC arriving before the set is funded means no pay. Non-trivial: >=2 different expiries, or height changed during collection, or the bound saturated at 0 / hit the policy cap.",
            profile: Profile { max_parts: 4, w_reject: 12, w_crash: 2, extreme_cfg: false, ..d.clone() },
            thorough_profile: Some(Profile { max_parts: 4, extreme_cfg: true, ..d.clone() }),
            cases_quick: 800,
            cases_thorough: 18000,
            nontrivial: |s| s.c04_nontrivial > 0,
            classes: |s| {
                let mut v = vec![];
                flag(&mut v, s.height_changes > 1, "height_changed");
                v
            },
        },
        "C05" => WorldCheck {
            prop: "C05",
            level: "fault_enumeration",
            rule: "WORLD: overlap of two lifecycles of one hash, crashes around the intent writes and the pay, stored histories Free / Pending(+-parts) / Succeeded, write faults. Oracle at every pay arrival: no part of that hash pending/complete and no other pay running; end of run: at most one completed payment group per hash. Non-trivial: the hash had an earlier attempt record or part when a new set began; distinct by abstract trace hash.",
            profile: Profile { w_crash: 8, w_under: 5, w_reject: 3, max_parts: 2, ..d.clone() },
            thorough_profile: Some(Profile { w_crash: 8, max_parts: 4, ..d.clone() }),
            cases_quick: 800,
            cases_thorough: 18000,
            nontrivial: |s| s.earlier_attempt_when_ready > 0,
            classes: |s| {
                let mut v = vec![];
                flag(&mut v, s.restart_with_pending > 0, "restart_onto_pending_record");
                flag(&mut v, s.parts_completed > 0, "part_completed");
                v
            },
        },
        "C07" => WorldCheck {
            prop: "C07",
            level: "exploration",
            rule: "WORLD: 2-5 parts, a rejecting HTLC (conflicting invoice/amount, low relative expiry, low declared total) at every position, arrival while the state fetch or recovery RPCs are withheld. Oracle: whenever one HTLC of a hash is answered, all HTLCs held for it are answered in the same instant with identical responses; a rejection before the set is funded means no pay for that lifecycle. Non-trivial: >=2 HTLCs answered in one instant, or a rejecting HTLC among >=2.",
            profile: Profile { max_parts: 5, w_reject: 30, w_under: 10, w_crash: 2, ..d.clone() },
            thorough_profile: None,
            cases_quick: 800,
            cases_thorough: 24000,
            nontrivial: |s| s.max_batch >= 2 || s.rejecting_in_multi > 0,
            classes: |s| {
                let mut v = vec![];
                flag(&mut v, s.max_batch >= 2, "batch_of_2_or_more");
                flag(&mut v, s.rejecting_in_multi > 0, "rejecting_htlc_in_multi_set");
                v
            },
        },
        "C08" => WorldCheck {
            prop: "C08",
            level: "fault_enumeration",
            rule: "WORLD: as C05 plus every write-fault kind at generated positions; two lifecycles of one hash with the first one's bookkeeping delayed. Oracle after every applied effect (each prefix is a crash image): parts pending/complete => stored state Pending or Succeeded; stored Pending at every pay arrival; Free written only when nothing is live; Succeeded holds a 32-byte preimage of the key's hash. Non-trivial: a part existed and a state write was applied after it, or a write fault was hit.",
            profile: Profile { w_crash: 6, w_under: 5, w_reject: 3, max_parts: 2, ..d.clone() },
            thorough_profile: None,
            cases_quick: 800,
            cases_thorough: 24000,
            nontrivial: |s| s.state_write_after_part > 0 || s.write_faults_hit > 0,
            classes: |s| {
                let mut v = vec![];
                flag(&mut v, s.state_write_after_part > 0, "state_write_after_part");
                v
            },
        },
        "C11" => WorldCheck {
            prop: "C11",
            level: "exploration",
            rule: "WORLD in virtual time: timeouts 0..120 s, partial HTLCs spread over ticks, restarts with downtimes on a 5 s grid incl. far beyond the timeout. Oracle for sets that never reach the total (no rejection, no attempt live): answer is 0x2019, no pay, t_fail in [t_fetch+T, t_fetch+T+1s] when the stored state was free, t_fail <= t_recovery+T(+1s) after a restart, immediate when the attempt is older than T+5 s. Non-trivial: such a set with >=2 HTLCs at different seconds, or after a restart.",
            profile: Profile { w_under: 75, w_reject: 2, w_nontramp: 0, w_hash_mismatch: 0, w_tick: 25, w_crash: 6, write_faults: false, mpp_choices: &[0, 5, 10, 30, 60, 120], max_parts: 3, ..d.clone() },
            thorough_profile: None,
            cases_quick: 800,
            cases_thorough: 24000,
            nontrivial: |s| s.c11_multi_or_restart > 0,
            classes: |s| {
                let mut v = vec![];
                flag(&mut v, s.c11_judged > 0, "incomplete_set_judged");
                v
            },
        },
        _ => return None,
    })
}

// ------------------------------------------------------------------ systematic crash-point / write-fault enumeration

/// `n` base histories drawn deterministically from `profile` (no random crashes or faults in them).
pub fn base_histories(seed: u64, n: usize, profile: &Profile) -> Vec<Scenario> {
    use proptest::strategy::{Strategy, ValueTree};
    use proptest::test_runner::{Config, RngAlgorithm, TestRng, TestRunner};
    let mut bytes = [0u8; 32];
    bytes[..8].copy_from_slice(&seed.to_le_bytes());
    bytes[8] = 0x5a;
    let mut runner = TestRunner::new_with_rng(Config::default(), TestRng::from_seed(RngAlgorithm::ChaCha, &bytes));
    let prof = Profile { crashes: false, write_faults: false, read_faults: false, ..profile.clone() };
    let strat = scenario_strategy(prof);
    (0..n).map(|_| strat.new_tree(&mut runner).unwrap().current()).collect()
}

/// Every single crash point (after each node-side effect, three crash flavours)
/// and every single write fault (each write x {rejected, applied-but-error}) of one base history.
pub fn family(base: &Scenario) -> Vec<Scenario> {
    let mut w = World::new(Scenario { probe: false, ..base.clone() });
    w.run();
    let m = w.effects.min(60) as u16;
    let n = w.shared.lock().unwrap().node.writes_seen.min(20) as u8;
    let beyond = ((base.cfg.mpp_timeout_s + 10) / 5).min(200) as u8;
    let mut out = vec![base.clone()];
    for k in 1..=m {
        for (down, lose) in [(0u8, false), (0u8, true), (beyond, false), (255u8, false)] {
            let mut s = base.clone();
            s.crash_at = vec![(k, down, lose)];
            out.push(s);
        }
    }
    for i in 0..n {
        for kind in [crate::node::FaultKind::Reject, crate::node::FaultKind::AppliedButError] {
            let mut s = base.clone();
            s.write_faults = vec![(i, kind)];
            out.push(s);
        }
    }
    out
}

/// Every RPC of a base history delayed: ordinal k withheld for m further effects (m in {6, 14, 30}).
pub fn delay_family(base: &Scenario) -> Vec<Scenario> {
    let mut w = World::new(Scenario { probe: false, ..base.clone() });
    w.run();
    let rpcs = w.shared.lock().unwrap().next_uid.saturating_sub(1).min(40) as u16;
    let mut out = vec![];
    for k in 0..rpcs {
        for m in [6u16, 14, 30] {
            let mut s = base.clone();
            s.hold = vec![(k, m)];
            out.push(s);
        }
    }
    out
}

pub fn enumerate_faults(s: &mut Session, prop: &'static str, nbases: usize, profile: &Profile, nontrivial: fn(&Stats) -> bool, classes: fn(&Stats) -> Vec<String>) {
    let bases = base_histories(s.seed, nbases, profile);
    let mut all = vec![];
    for b in &bases {
        all.extend(family(b));
    }
    let case = world_case(prop, nontrivial, classes);
    s.extra.insert("fault_enumeration".into(), json!({"base_histories": nbases, "variants": all.len(), "per_base": "every node-side effect index k x {crash, crash losing the last answers, crash with downtime beyond the MPP timeout, crash with a 100 000 s outage} + every datastore write x {rejected, applied-but-reported-failed}"}));
    s.enumerate("enumerate-crash-points-and-write-faults", "world", all, case);
}

pub fn run_c09(tier: Tier, seed: u64) -> i32 {
    let rule = "WORLD: a generated base history is re-run with a crash after every node-side effect (3 crash flavours) and with every single datastore write rejected / applied-but-reported-failed; after the fair drain a probe (fresh lifetime, fully funded HTLC for the same invoice, cooperative recipient) is injected, up to 3 times while the stored image changes. Oracle: the probe is resolved; a failing probe that leaves the stored image unchanged is a fixpoint = permanently unpayable. A random-search phase adds multi-crash histories. Non-trivial: the history left a Pending record behind when the probe started, or a write fault was hit; distinct by abstract trace hash.";
    let mut s = Session::new("C09", tier, seed, "fault_enumeration", rule);
    for a in ASSUMPTIONS {
        s.assume(a);
    }
    s.assume("the probe's recipient is cooperative: every outgoing part of the probe payment completes");
    let d = Profile::default();
    let nontrivial: fn(&Stats) -> bool = |st| st.probe_runs > 0 && (st.probe_left_pending > 0 || st.write_faults_hit > 0);
    let classes: fn(&Stats) -> Vec<String> = |st| {
        let mut v = vec![];
        flag(&mut v, st.probe_runs > 0, "probe_ran");
        flag(&mut v, st.probe_left_pending > 0, "pending_record_left_behind");
        v
    };
    let case = world_case("C09", nontrivial, classes);
    s.regress::<Scenario, _>("world", &case);
    // a zero MPP timeout makes the plugin fail every set at once, paid or not: nothing to probe
    const NONZERO: &[u64] = &[5, 10, 60, 60, 120];
    let base_prof = Profile { mpp_choices: NONZERO, probe: true, max_payments: 1, max_parts: 2, w_under: 5, w_reject: 3, w_nontramp: 0, w_hash_mismatch: 0, steps: 0..10, heights: false, ..d.clone() };
    enumerate_faults(&mut s, "C09", tier.pick(30, 250), &base_prof, nontrivial, classes);
    // histories with two attempts on ONE hash (first fails, bookkeeping delayed) x every crash point / write fault
    {
        use proptest::strategy::{Strategy, ValueTree};
        use proptest::test_runner::{Config, RngAlgorithm, TestRng, TestRunner};
        let mut bytes = [7u8; 32];
        bytes[..8].copy_from_slice(&seed.to_le_bytes());
        let mut runner = TestRunner::new_with_rng(Config::default(), TestRng::from_seed(RngAlgorithm::ChaCha, &bytes));
        let strat = overlap_strategy();
        let mut all = vec![];
        for _ in 0..tier.pick(12, 120) {
            let mut b = strat.new_tree(&mut runner).unwrap().current();
            b.probe = true;
            b.steps.retain(|s| !matches!(s, Step::Crash { .. }));
            if b.cfg.mpp_timeout_s == 0 {
                continue;
            }
            all.extend(family(&b));
        }
        s.enumerate("enumerate-two-attempt-histories", "world", all, &case);
    }
    let prof = Profile { mpp_choices: NONZERO, probe: true, w_crash: 8, max_payments: 2, w_under: 5, ..d.clone() };
    {
        use proptest::strategy::Strategy;
        let p = prof.clone();
        s.assume("records written by the release this harness is pinned to (stored format of that commit) belong to the input domain: a node is upgraded with its datastore in place");
        s.search("world-paid-by-earlier-run", "world", tier.pick(100, 1500), move || scenario_strategy(p.clone()).prop_map(|mut x| { x.initial_succeeded = vec![0]; x }), &case);
    }
    s.search("world-random-crashes", "world", tier.pick(300, 3000), move || scenario_strategy(prof.clone()), &case);
    s.finish()
}
