pub mod c12;
pub mod c18;
pub mod world_clause;
pub mod worldprops;
