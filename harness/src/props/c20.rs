//! C20 — height is the max of everything told; catches up by polling.
use crate::monitors::Stats;
use crate::props::worldprops::*;
use crate::runner::*;
use crate::scen::*;
use crate::world::World;
use proptest::prelude::*;
use serde_json::json;

fn heights() -> impl Strategy<Value = u32> {
    prop_oneof![4 => 0u32..50, 3 => 990u32..1010, 1 => Just(0u32), 1 => Just(u32::MAX), 1 => Just(u32::MAX - 1), 1 => any::<u32>()]
}

fn c20_strategy() -> impl Strategy<Value = Scenario> {
    (
        proptest::collection::vec(
            prop_oneof![
                6 => any::<u16>().prop_map(Step::Answer),
                2 => (any::<u16>(), proptest::sample::select(&[-1i32, -32601, 400][..])).prop_map(|(i, c)| Step::AnswerErr(i, c)),
                5 => heights().prop_map(Step::Block),
                4 => heights().prop_map(Step::Height),
                6 => prop_oneof![3 => Just(12u8), 2 => Just(13u8), 2 => 1u8..=11, 1 => Just(24u8)].prop_map(Step::Tick),
                1 => (0u8..3, any::<bool>()).prop_map(|(down, reverse)| Step::Crash { down, lose_last: false, reverse }),
            ],
            0..30,
        ),
        heights(),
        any::<u64>(),
    )
        .prop_map(|(steps, start_height, seed)| Scenario {
            cfg: Cfg::default(),
            payments: vec![PaymentSpec { preimage: 0x11, invoice_amount: Some(1_000_000), tlv_amount: 1_000_000, hints: Hints::None, explicit_payee: false, recipient_ok: true, drain_parts: 1 }],
            htlcs: vec![],
            steps,
            write_faults: vec![],
            read_faults: vec![],
            start_height,
            tokio_seed: seed,
            c16_profile: false,
            probe: false,
            direct: vec![],
            initial_parts: vec![],
            manual_getinfo: true,
            crash_at: vec![],
            freeze: None,
        })
}

fn case(scn: &Scenario) -> CaseReport {
    let mut w = World::new(scn.clone());
    w.run();
    let trace = abstract_trace(&w);
    let stale = w.mon.stale_heights;
    let failed = w.mon.failed_polls;
    let gaps = w.mon.poll_gaps_ms.len();
    let out = WorldOut { violations: std::mem::take(&mut w.mon.violations), stats: w.mon.stats.clone(), fp: w.mon.trace_fp, inconclusive: w.inconclusive, truncated: w.truncated, trace };
    let mut rep = report_for("C20", scn, out, |_| false, |_| vec![]);
    rep.nontrivial = stale > 0 || failed > 0;
    if stale > 0 {
        rep.classes.push("stale_or_repeated_height_delivered".into());
    }
    if failed > 0 {
        rep.classes.push("poll_failed".into());
    }
    if gaps > 0 {
        rep.classes.push("poll_interval_observed".into());
    }
    if rep.nontrivial && rep.sample.is_none() {
        let mut w2 = World::new(scn.clone());
        w2.run();
        rep.sample = Some(json!({"steps": scn.steps, "trace": abstract_trace(&w2).into_iter().take(60).collect::<Vec<_>>()}));
    }
    rep
}

pub fn run(tier: Tier, seed: u64) -> i32 {
    let rule = "WORLD with the real BlockWatcher (60 s poll loop, virtual time): sequences of poll replies (arbitrary, stale, repeated heights, RPC errors), block_added notifications, silent node height changes, ticks and restarts. Oracle after every step: current_height() equals the maximum over startup reply, answered polls and delivered notifications of this lifetime (hence monotone); the next poll request arrives within 60 s (+1 s) of the previous answer, successful or not. Non-trivial: a stale/repeated height was delivered after a higher one, or a poll failed; distinct by abstract trace hash. E2E (thorough): block_added notifications through the real binary decide the maxdelay of a following pay.";
    let mut s = Session::new("C20", tier, seed, "exploration", rule);
    s.assume("the first getinfo of a lifetime (BlockWatcher::start) is answered at once with the node's height; later polls are answered by driver steps");
    s.regress::<Scenario, _>("world", case);
    s.search("world-blockwatcher", "world", tier.pick(600, 10000), c20_strategy, case);
    if tier == Tier::Thorough {
        crate::e2e::c20_e2e(&mut s);
    }
    s.finish()
}
