//! C20 — height is the max of everything told; catches up by polling.
use crate::monitors::Stats;
use crate::props::worldprops::*;
use crate::runner::*;
use crate::scen::*;
use crate::world::World;
use proptest::prelude::*;
use serde_json::json;

fn heights() -> impl Strategy<Value = u32> {
    prop_oneof![4 => 0u32..50, 3 => 990u32..1010, 1 => Just(0u32), 1 => Just(u32::MAX), 1 => Just(u32::MAX - 1), 1 => any::<u32>()]
}

fn c20_strategy() -> impl Strategy<Value = Scenario> {
    (
        proptest::collection::vec(
            prop_oneof![
                6 => any::<u16>().prop_map(Step::Answer),
                2 => (any::<u16>(), proptest::sample::select(&[-1i32, -32601, 400][..])).prop_map(|(i, c)| Step::AnswerErr(i, c)),
                1 => any::<bool>().prop_map(Step::SyncWarning),
                5 => heights().prop_map(Step::Block),
                4 => heights().prop_map(Step::Height),
                6 => prop_oneof![3 => Just(12u8), 2 => Just(13u8), 2 => 1u8..=11, 1 => Just(24u8)].prop_map(Step::Tick),
                1 => (0u8..3, any::<bool>()).prop_map(|(down, reverse)| Step::Crash { down, lose_last: false, reverse }),
            ],
            0..30,
        ),
        heights(),
        any::<u64>(),
    )
        .prop_map(|(steps, start_height, seed)| Scenario {
            cfg: Cfg::default(),
            payments: vec![PaymentSpec { preimage_hi: 0, preimage: 0x11, invoice_amount: Some(1_000_000), tlv_amount: 1_000_000, hints: Hints::None, explicit_payee: false, recipient_ok: true, drain_parts: 1 }],
            htlcs: vec![],
            steps,
            write_faults: vec![],
            read_faults: vec![],
            start_height,
            tokio_seed: seed,
            c16_profile: false,
            probe: false,
            direct: vec![],
            initial_parts: vec![],
            manual_getinfo: true,
            crash_at: vec![],
            freeze: None,
        hold: vec![],
            freeze_polls: false,
        initial_pending: vec![],
        ds_read_faults: vec![],
        initial_succeeded: vec![],
        cfg_later: None,
        notif_stall: false,
        pay_opts: None,
        fail_store: None,
        })
}

fn case(scn: &Scenario) -> CaseReport {
    let mut w = World::new(scn.clone());
    w.run();
    let trace = abstract_trace(&w);
    let stale = w.mon.stale_heights;
    let failed = w.mon.failed_polls;
    let gaps = w.mon.poll_gaps_ms.len();
    let out = WorldOut { violations: std::mem::take(&mut w.mon.violations), stats: w.mon.stats.clone(), fp: w.mon.trace_fp, inconclusive: w.inconclusive, truncated: w.truncated, trace };
    let mut rep = report_for("C20", scn, out, |_| false, |_| vec![]);
    rep.nontrivial = stale > 0 || failed > 0;
    if stale > 0 {
        rep.classes.push("stale_or_repeated_height_delivered".into());
    }
    if failed > 0 {
        rep.classes.push("poll_failed".into());
    }
    if gaps > 0 {
        rep.classes.push("poll_interval_observed".into());
    }
    if rep.nontrivial && rep.sample.is_none() {
        let mut w2 = World::new(scn.clone());
        w2.run();
        rep.sample = Some(json!({"steps": scn.steps, "trace": abstract_trace(&w2).into_iter().take(60).collect::<Vec<_>>()}));
    }
    rep
}

// ------------------------------------------------------------------ parallel stress (multi-thread runtime)

#[derive(Clone, Debug, serde::Serialize, serde::Deserialize)]
pub struct Stress {
    pub heights: Vec<u32>,
    pub readers: u16,
}

fn stress_strategy() -> impl Strategy<Value = Stress> {
    (proptest::collection::vec(prop_oneof![3 => 1000u32..1100, 1 => 0u32..5000], 300..1500), 0u16..200).prop_map(|(heights, readers)| Stress { heights, readers })
}

/// Many block_added notifications handled concurrently on a multi-thread runtime (as in
/// production): whatever the interleaving, the final height must be the maximum told.
/// Sound oracle, probabilistic search (thread scheduling is not controlled).
fn stress_case(c: &Stress) -> CaseReport {
    use crate::block_watcher::{BlockProvider, BlockWatcher};
    use crate::messages::BlockAdded;
    use std::sync::Arc;
    let mut rep = CaseReport::default();
    let rt = tokio::runtime::Builder::new_multi_thread().worker_threads(4).enable_all().build().unwrap();
    let max = c.heights.iter().cloned().max().unwrap_or(0);
    let (last, seen_decrease) = rt.block_on(async {
        let w = Arc::new(BlockWatcher::new(Arc::new(crate::rpc::Rpc::new("/nonexistent/lightning-rpc".into()))));
        let mut tasks = vec![];
        for h in c.heights.iter().cloned() {
            let w = w.clone();
            tasks.push(tokio::spawn(async move {
                w.new_block(&BlockAdded { height: h }).await;
                0u32
            }));
        }
        let mut readers = vec![];
        for _ in 0..c.readers {
            let w = w.clone();
            readers.push(tokio::spawn(async move {
                // a reader must never see the height go down
                let a = w.current_height().await;
                tokio::task::yield_now().await;
                let b = w.current_height().await;
                (b < a) as u32
            }));
        }
        for t in tasks {
            let _ = t.await;
        }
        let mut dec = 0;
        for r in readers {
            dec += r.await.unwrap_or(0);
        }
        (w.current_height().await, dec)
    });
    drop(rt);
    if last != max {
        rep.violations.push(Violation::new("C20", "height_not_max_after_concurrent_notifications", format!("{} concurrent block_added notifications with maximum {max}: final height {last}", c.heights.len())));
    }
    if seen_decrease > 0 {
        rep.violations.push(Violation::new("C20", "height_decreased_under_concurrency", format!("{seen_decrease} readers saw the height decrease")));
    }
    rep.nontrivial = true;
    rep.fingerprint = fp_of(&c.heights);
    rep.classes.push("parallel_stress".into());
    rep.sample = Some(json!({"n_notifications": c.heights.len(), "max": max, "first": c.heights.iter().take(8).collect::<Vec<_>>()}));
    rep
}

pub fn replay(engine: &str, c: serde_json::Value) -> Option<CaseReport> {
    match engine {
        "world" => Some(case(&serde_json::from_value(c).ok()?)),
        "parallel-stress" => Some(stress_case(&serde_json::from_value(c).ok()?)),
        _ => None,
    }
}

pub fn run(tier: Tier, seed: u64) -> i32 {
    let rule = "WORLD with the real BlockWatcher (60 s poll loop, virtual time): sequences of poll replies (arbitrary, stale, repeated heights, RPC errors), block_added notifications, silent node height changes, ticks and restarts. Oracle after every step: current_height() equals the maximum over startup reply, answered polls and delivered notifications of this lifetime (hence monotone); the next poll request arrives within 60 s (+1 s) of the previous answer, successful or not. Non-trivial: a stale/repeated height was delivered after a higher one, or a poll failed; distinct by abstract trace hash. E2E (thorough): block_added notifications through the real binary decide the maxdelay of a following pay.";
    let mut s = Session::new("C20", tier, seed, "exploration", rule);
    s.assume("the first getinfo of a lifetime (BlockWatcher::start) is answered at once with the node's height; later polls are answered by driver steps");
    s.regress::<Scenario, _>("world", case);
    s.search("world-blockwatcher", "world", tier.pick(600, 20000), c20_strategy, case);
    s.assume("parallel stress phase: real multi-thread runtime, scheduling not controlled - a violation found there is real, absence is weak evidence");
    s.shrink_iters = 20;
    s.search("parallel-stress", "parallel-stress", tier.pick(8, 200), stress_strategy, stress_case);
    s.shrink_iters = 600;
    crate::e2e::c20_e2e(&mut s);
    s.finish()
}
