//! C18 — TLV codec total and lossless (PURE; libFuzzer target is separate).
use crate::gen::*;
use crate::refmodel::*;
use crate::runner::*;
use crate::tlv::{FromBytes, ProtoBuf, SerializedTlvStream, TlvEntry, ToBytes};
use proptest::prelude::*;
use serde::{Deserialize, Serialize};
use serde_json::json;

#[derive(Clone, Debug, Serialize, Deserialize)]
pub enum TlvCase {
    /// arbitrary bytes: totality through all entry points
    Bytes(Hx),
    /// a valid BOLT stream given as records (strictly increasing types)
    Valid(Vec<(u64, Hx)>),
    /// arbitrary records in any order (encode-then-decode)
    Records(Vec<(u64, Hx)>),
    /// truncated integer field
    Tu64(Hx),
}

fn to_entries(r: &[Rec]) -> Vec<TlvEntry> {
    r.iter().map(|(t, v)| TlvEntry { typ: *t, value: v.clone() }).collect()
}

fn guard<T>(f: impl FnOnce() -> T + std::panic::UnwindSafe) -> Result<T, ()> {
    std::panic::catch_unwind(f).map_err(|_| ())
}

/// Runs every decoding entry point on `b`; a panic is a violation.
fn totality(b: &[u8], rep: &mut CaseReport) {
    let v = b.to_vec();
    if guard(move || SerializedTlvStream::from_bytes(v).is_ok()).is_err() {
        rep.violations.push(
            Violation::new("C18", "panic_from_bytes", format!("from_bytes({}) panicked", hex::encode(b)))
                .with_sig(json!({"kind":"panic","entry":"from_bytes"})),
        );
    }
    let v = b.to_vec();
    if guard(move || SerializedTlvStream::try_from(v).is_ok()).is_err() {
        rep.violations.push(
            Violation::new("C18", "panic_try_from", format!("try_from({}) panicked", hex::encode(b)))
                .with_sig(json!({"kind":"panic","entry":"try_from"})),
        );
    }
    if b.len() > 4096 {
        // the serde path is hex-decode + try_from; skip the (slow) duplicate on huge inputs
        return;
    }
    let h = hex::encode(b);
    if guard(move || serde_json::from_value::<SerializedTlvStream>(serde_json::Value::String(h)).is_ok()).is_err() {
        rep.violations.push(
            Violation::new("C18", "panic_serde", format!("deserialising \"{}\" panicked", hex::encode(b)))
                .with_sig(json!({"kind":"panic","entry":"serde"})),
        );
    }
}

fn multibyte(b: &[u8]) -> bool {
    b.iter().any(|x| *x >= 0xfd)
}

pub fn check(c: &TlvCase) -> CaseReport {
    let mut rep = CaseReport::default();
    match c {
        TlvCase::Bytes(Hx(b)) => {
            totality(b, &mut rep);
            rep.nontrivial = multibyte(b);
            rep.classes.push(format!("bytes_len_{}", if b.len() <= 6 { b.len().to_string() } else { ">6".into() }));
            rep.fingerprint = fp_of(b);
        }
        TlvCase::Valid(recs) => {
            let recs: &Vec<Rec> = &recs.iter().map(|(t, v)| (*t, v.0.clone())).collect();
            let x = encode_stream(recs);
            debug_assert!(decode_stream_strict(&x).is_ok());
            let xs = x.clone();
            match guard(move || SerializedTlvStream::from_bytes(xs)) {
                Err(()) => rep.violations.push(
                    Violation::new("C18", "panic_from_bytes", format!("from_bytes panicked on valid stream {}", hex::encode(&x)))
                        .with_sig(json!({"kind":"panic","entry":"from_bytes"})),
                ),
                Ok(Err(e)) => rep.violations.push(Violation::new("C18", "valid_stream_rejected", format!("{} rejected: {e}", hex::encode(&x)))),
                Ok(Ok(s)) => {
                    if s != SerializedTlvStream::from(to_entries(recs)) {
                        rep.violations.push(Violation::new("C18", "decode_differs_from_reference", format!("stream {} decoded to {:?}", hex::encode(&x), s)));
                    }
                    for (t, v) in recs {
                        if s.get(*t).map(|e| e.value) != Some(v.clone()) {
                            rep.violations.push(Violation::new("C18", "get_differs", format!("get({t}) on {}", hex::encode(&x))));
                        }
                    }
                    let back = SerializedTlvStream::to_bytes(s);
                    if back != x {
                        rep.violations.push(Violation::new(
                            "C18",
                            "reencode_differs",
                            format!("to_bytes(decode(x)) = {} for x = {}", hex::encode(back), hex::encode(&x)),
                        ));
                    }
                }
            }
            // length-prefixed entry point
            let p = encode_payload(recs);
            let ps = p.clone();
            match guard(move || SerializedTlvStream::try_from(ps)) {
                Err(()) => rep.violations.push(
                    Violation::new("C18", "panic_try_from", format!("try_from panicked on valid payload {}", hex::encode(&p)))
                        .with_sig(json!({"kind":"panic","entry":"try_from"})),
                ),
                Ok(Err(e)) => rep.violations.push(Violation::new("C18", "valid_payload_rejected", format!("{} rejected: {e}", hex::encode(&p)))),
                Ok(Ok(s)) => {
                    if s != SerializedTlvStream::from(to_entries(recs)) {
                        rep.violations.push(Violation::new("C18", "payload_decode_differs", format!("payload {} decoded to {:?}", hex::encode(&p), s)));
                    }
                }
            }
            // serde path
            let hs = hex::encode(&p);
            match guard(move || serde_json::from_value::<SerializedTlvStream>(serde_json::Value::String(hs))) {
                Err(()) => rep.violations.push(
                    Violation::new("C18", "panic_serde", format!("serde panicked on valid payload {}", hex::encode(&p)))
                        .with_sig(json!({"kind":"panic","entry":"serde"})),
                ),
                Ok(Err(e)) => rep.violations.push(Violation::new("C18", "valid_payload_rejected_serde", format!("{} rejected: {e}", hex::encode(&p)))),
                Ok(Ok(s)) => {
                    if s != SerializedTlvStream::from(to_entries(recs)) {
                        rep.violations.push(Violation::new("C18", "serde_decode_differs", format!("payload {} decoded to {:?}", hex::encode(&p), s)));
                    }
                }
            }
            // every truncation (all offsets when short; 64 spread offsets otherwise)
            let n = x.len();
            let offs: Vec<usize> = if n <= 96 {
                (0..n).collect()
            } else {
                // all early offsets, the neighbourhood of every record boundary, a few spread ones
                let mut o: Vec<usize> = (0..48).collect();
                let mut pos = 0usize;
                for (t, v) in recs.iter() {
                    let mut hdr = vec![];
                    put_bigsize(&mut hdr, *t);
                    put_bigsize(&mut hdr, v.len() as u64);
                    for d in 0..=hdr.len() + 1 {
                        o.push((pos + d).min(n - 1));
                    }
                    pos += hdr.len() + v.len();
                    o.push(pos.saturating_sub(1).min(n - 1));
                }
                o.extend((1..8).map(|i| i * n / 8));
                o.extend(n - 10..n);
                o.sort();
                o.dedup();
                o
            };
            let mut trunc_in_varint = false;
            for o in offs {
                totality(&x[..o], &mut rep);
                let o2 = o.min(p.len());
                totality(&p[..o2], &mut rep);
                if o > 0 && x[..o].len() < n {
                    trunc_in_varint |= get_bigsize(&x[o.saturating_sub(1)..o]).is_err();
                }
            }
            rep.nontrivial = multibyte(&x) || trunc_in_varint;
            rep.fingerprint = fp_of(&x);
            rep.classes.push(format!("valid_records_{}", recs.len().min(4)));
            if recs.iter().any(|(t, _)| *t > 0xffff_ffff) {
                rep.classes.push("type_9_byte".into());
            }
            if recs.iter().any(|(_, v)| v.len() >= 0xfd) {
                rep.classes.push("len_3_byte".into());
            }
            if recs.iter().any(|(_, v)| v.len() >= 0x10000) {
                rep.classes.push("len_5_byte".into());
            }
        }
        TlvCase::Records(recs) => {
            let recs: &Vec<Rec> = &recs.iter().map(|(t, v)| (*t, v.0.clone())).collect();
            let rs = recs.clone();
            match guard(move || {
                let enc = SerializedTlvStream::to_bytes(SerializedTlvStream::from(to_entries(&rs)));
                (enc.clone(), SerializedTlvStream::from_bytes(enc))
            }) {
                Err(()) => rep.violations.push(Violation::new("C18", "panic_roundtrip", format!("encode/decode of {recs:?} panicked")).with_sig(json!({"kind":"panic","entry":"roundtrip"}))),
                Ok((enc, Err(e))) => rep.violations.push(Violation::new("C18", "own_encoding_rejected", format!("{} rejected: {e}", hex::encode(enc)))),
                Ok((enc, Ok(s))) => {
                    if enc != encode_stream(recs) {
                        rep.violations.push(Violation::new("C18", "encoding_differs_from_reference", format!("{} vs reference {}", hex::encode(&enc), hex::encode(encode_stream(recs)))));
                    }
                    if s != SerializedTlvStream::from(to_entries(recs)) {
                        rep.violations.push(Violation::new("C18", "roundtrip_differs", format!("records {recs:?} came back as {s:?}")));
                    }
                }
            }
            let x = encode_stream(recs);
            rep.nontrivial = multibyte(&x);
            rep.fingerprint = fp_of(&x);
            rep.classes.push(format!("records_{}", recs.len().min(4)));
        }
        TlvCase::Tu64(Hx(b)) => {
            let want = tu64_ref(b);
            let b1 = b.clone();
            let r1 = guard(move || {
                let mut x: bytes::Bytes = b1.into();
                x.get_tu64().ok()
            });
            let b2 = b.clone();
            let r2 = guard(move || {
                let mut x: &[u8] = &b2[..];
                x.get_tu64().ok()
            });
            for (name, r) in [("Bytes", r1), ("slice", r2)] {
                match r {
                    Err(()) => rep.violations.push(Violation::new("C18", "panic_tu64", format!("get_tu64 on {name} {} panicked", hex::encode(b))).with_sig(json!({"kind":"panic","entry":"tu64"}))),
                    Ok(v) if v == want => {}
                    Ok(v) => rep.violations.push(Violation::new("C18", "tu64_value", format!("get_tu64({}) on {name} = {v:?}, reference {want:?}", hex::encode(b)))),
                }
            }
            rep.nontrivial = true;
            rep.fingerprint = fp_of(b);
            rep.classes.push(format!("tu64_len_{}", b.len().min(10)));
        }
    }
    if rep.nontrivial {
        rep.sample = Some(serde_json::to_value(c).unwrap());
    }
    rep
}

fn hx(r: Vec<Rec>) -> Vec<(u64, Hx)> {
    r.into_iter().map(|(t, v)| (t, Hx(v))).collect()
}

fn type_strategy() -> impl Strategy<Value = u64> {
    prop_oneof![
        4 => 0u64..=40,
        2 => proptest::sample::select(&[16u64, 2, 4, 6, 8, 33001, 33003, 0xfc, 0xfd, 0xfe, 0xff, 0xffff, 0x10000, 0xffff_ffff, 0x1_0000_0000, u64::MAX - 1, u64::MAX][..]),
        1 => any::<u64>(),
    ]
}

fn value_strategy() -> impl Strategy<Value = Vec<u8>> {
    prop_oneof![
        120 => proptest::collection::vec(any::<u8>(), 0..12),
        48 => proptest::collection::vec(any::<u8>(), 0..300),
        12 => proptest::sample::select(&[0xfcusize, 0xfd, 0xfe, 0xff, 0x100][..]).prop_map(|n| vec![0xab; n]),
        1 => proptest::sample::select(&[0xffffusize, 0x10000, 0x10001][..]).prop_map(|n| vec![0xab; n]),
    ]
}

fn records() -> impl Strategy<Value = Vec<Rec>> {
    proptest::collection::vec((type_strategy(), value_strategy()), 0..6)
}

fn valid_records() -> impl Strategy<Value = Vec<Rec>> {
    records().prop_map(|mut r| {
        r.sort_by_key(|x| x.0);
        r.dedup_by_key(|x| x.0);
        r
    })
}

fn bytes_strategy() -> impl Strategy<Value = Vec<u8>> {
    let sym = prop_oneof![
        5 => proptest::sample::select(&[0u8, 1, 2, 3, 8, 9, 16, 0xfc, 0xfd, 0xfe, 0xff, 0x80][..]),
        2 => any::<u8>(),
    ];
    prop_oneof![
        4 => proptest::collection::vec(sym, 0..24),
        2 => proptest::collection::vec(any::<u8>(), 0..300),
        // a valid stream with bytes flipped / spliced
        3 => (valid_records(), proptest::collection::vec((any::<u16>(), any::<u8>()), 0..4), any::<u16>()).prop_map(|(r, muts, cut)| {
            let mut x = encode_stream(&r);
            x.truncate(4096);
            for (i, b) in muts {
                if !x.is_empty() {
                    let k = pick(i, x.len());
                    x[k] = b;
                }
            }
            let n = pick(cut, x.len() + 1);
            if cut % 3 == 0 {
                x.truncate(n);
            }
            x
        }),
    ]
}

pub fn case_strategy() -> impl Strategy<Value = TlvCase> {
    prop_oneof![
        4 => bytes_strategy().prop_map(|b| TlvCase::Bytes(Hx(b))),
        4 => valid_records().prop_map(|r| TlvCase::Valid(hx(r))),
        2 => records().prop_map(|r| TlvCase::Records(hx(r))),
        1 => proptest::collection::vec(any::<u8>(), 0..12).prop_map(|b| TlvCase::Tu64(Hx(b))),
    ]
}

const ALPHABET: [u8; 12] = [0, 1, 2, 3, 8, 9, 16, 0xfc, 0xfd, 0xfe, 0xff, 0x80];

fn exhaustive_cases(tier: Tier) -> Vec<TlvCase> {
    let mut out = vec![TlvCase::Bytes(Hx(vec![]))];
    for a in 0..=255u8 {
        out.push(TlvCase::Bytes(Hx(vec![a])));
        for b in 0..=255u8 {
            out.push(TlvCase::Bytes(Hx(vec![a, b])));
        }
    }
    let maxlen = tier.pick(5, 6);
    for len in 3..=maxlen {
        let mut idx = vec![0usize; len];
        loop {
            out.push(TlvCase::Bytes(Hx(idx.iter().map(|i| ALPHABET[*i]).collect())));
            let mut k = 0;
            while k < len {
                idx[k] += 1;
                if idx[k] < ALPHABET.len() {
                    break;
                }
                idx[k] = 0;
                k += 1;
            }
            if k == len {
                break;
            }
        }
    }
    // tu64: every length 0..=10 with boundary byte patterns
    for len in 0..=10usize {
        for pat in [0x00u8, 0x01, 0x7f, 0x80, 0xff] {
            out.push(TlvCase::Tu64(Hx(vec![pat; len])));
            let mut v: Vec<u8> = (0..len as u8).map(|i| i.wrapping_mul(37).wrapping_add(pat)).collect();
            if !v.is_empty() {
                v[0] = pat;
            }
            out.push(TlvCase::Tu64(Hx(v)));
        }
    }
    // records that *declare* a huge length (every varint width) but carry only a few bytes: must be an error,
    // never an attempt to allocate that much
    for len in [0xfdu64, 0xffff, 0x10000, 0x7fff_ffff, 0xffff_ffff, 0x1_0000_0000, 1 << 40, 1 << 62, i64::MAX as u64, i64::MAX as u64 + 1, u64::MAX - 1, u64::MAX] {
        for tail in [0usize, 3] {
            let mut b = vec![0x01];
            put_bigsize(&mut b, len);
            b.extend(std::iter::repeat(0x55).take(tail));
            out.push(TlvCase::Bytes(Hx(b.clone())));
            // behind a valid record, and as a length-prefixed payload
            let mut c = vec![0x00, 0x01, 0xaa];
            c.extend(&b);
            out.push(TlvCase::Bytes(Hx(c.clone())));
            let mut p = vec![];
            put_bigsize(&mut p, c.len() as u64);
            p.extend(&c);
            out.push(TlvCase::Bytes(Hx(p)));
        }
    }
    // varint width boundaries, as type and as length
    for v in [0xfcu64, 0xfd, 0xfe, 0xff, 0x100, 0xffff, 0x10000, 0xffff_ffff, 0x1_0000_0000, u64::MAX] {
        out.push(TlvCase::Valid(hx(vec![(v, vec![1, 2, 3])])));
        out.push(TlvCase::Records(hx(vec![(v, vec![]), (0, vec![9])])));
        if v <= 0x10000 {
            out.push(TlvCase::Valid(hx(vec![(1, vec![0x5a; v as usize])])));
        }
    }
    out
}

pub fn run(tier: Tier, seed: u64) -> i32 {
    let mut s = Session::new(
        "C18",
        tier,
        seed,
        "exploration",
        "PURE: (1) every byte string of length <=2 and every string over a 12-symbol alphabet (0,1,2,3,8,9,16,0x80,0xfc..0xff) up to length 5 (quick) / 6 (thorough) through from_bytes, try_from and the serde path: must return; (2) generated valid BOLT streams (strictly increasing types, all varint widths): decode == reference records, get() agrees, re-encode == input, length-prefixed and serde entry points agree, every truncation returns; (3) arbitrary records: encode == reference encoding and decode(encode(r)) == r; (4) tu64 for lengths 0..=10 against big-endian reference. Non-trivial: input contains a multi-byte varint marker (>=0xfd) or a truncation inside one, or is a tu64 case; distinct by input bytes. FUZZ (thorough): libFuzzer campaign with (1)-(2) in the target.",
    );
    s.assume("reference codec in harness/src/refmodel.rs is a correct reading of BOLT 1 BigSize/TLV");
    s.regress::<TlvCase, _>("pure-tlv", check);
    s.enumerate("exhaustive-small", "pure-tlv", exhaustive_cases(tier), check);
    s.search("proptest-tlv", "pure-tlv", tier.pick(20_000, 400_000), case_strategy, check);
    s.exhaustive = false;
    s.extra.insert("exhaustive_small_scope".into(), json!(format!("all byte strings of length <=2; alphabet^len for len 3..={}", tier.pick(5, 6))));
    if tier == Tier::Thorough {
        crate::fuzzdrv::run_campaign(&mut s, "tlv", "C18");
    }
    s.finish()
}

pub fn replay(engine: &str, case: serde_json::Value) -> Option<CaseReport> {
    if engine == "pure-tlv" {
        let c: TlvCase = serde_json::from_value(case).ok()?;
        return Some(check(&c));
    }
    None
}
