//! C10 — trampoline parameters only from a signed, matching invoice.
use crate::gen::*;
use crate::monitors::Stats;
use crate::props::worldprops::*;
use crate::runner::*;
use crate::scen::*;
use proptest::prelude::*;
use serde_json::json;

#[derive(Clone, Debug)]
enum AmtField {
    Absent,
    Equal,
    PlusOne,
    MinusOne,
    LeadingZeros,
    NineBytes,
    Empty,
    Raw(Vec<u8>),
}

fn c10_strategy() -> impl Strategy<Value = Scenario> {
    let amount = prop_oneof![3 => Just(1_000_000u64), 2 => 1u64..5_000_000, 1 => proptest::sample::select(&[1u64, 255, 256, 65535, 65536, 0xffff_ffff, 0x1_0000_0000, 1_000_000_000_000][..])];
    let field = prop_oneof![
        3 => Just(AmtField::Absent),
        3 => Just(AmtField::Equal),
        2 => Just(AmtField::PlusOne),
        2 => Just(AmtField::MinusOne),
        2 => Just(AmtField::LeadingZeros),
        2 => Just(AmtField::NineBytes),
        1 => Just(AmtField::Empty),
        2 => proptest::collection::vec(any::<u8>(), 0..=9).prop_map(AmtField::Raw),
    ];
    (
        (any::<bool>(), amount, prop_oneof![Just(Hints::None), Just(Hints::Other), Just(Hints::OursLast), Just(Hints::OursNotLast), Just(Hints::OtherAndOursLast)], any::<bool>()),
        field,
        prop_oneof![6 => Just(0u8), 2 => Just(1u8), 1 => Just(2u8), 1 => Just(3u8), 2 => Just(4u8), 2 => Just(5u8)], // 5 = valid, non-minimally encoded expiry; 0 valid sig, 1 bad sig, 2 not utf8, 3 not bolt11, 4 explicit payee + flipped recovery id
        prop_oneof![3 => Just(false), 1 => Just(true)],                              // hash differs
        any::<bool>(),                                                               // allow_self
        (prop_oneof![Just(0u32), Just(1000u32)], prop_oneof![Just(5000u32), Just(0u32), Just(1u32)]),
        any::<u64>(),
    )
        .prop_map(|((amountless, amount, hints, explicit_payee), field, sig, hash_differs, allow_self, (base, ppm), seed)| {
            let cfg = Cfg { base, ppm, allow_self, ..Cfg::default() };
            let p0 = PaymentSpec { preimage_hi: 0, preimage: 0x11, invoice_amount: if amountless { None } else { Some(amount) }, tlv_amount: amount, hints, explicit_payee, recipient_ok: false, drain_parts: 1 };
            let p1 = PaymentSpec { preimage_hi: 0, preimage: 0x22, invoice_amount: Some(1_000_000), tlv_amount: 1_000_000, hints: Hints::None, explicit_payee: false, recipient_ok: false, drain_parts: 1 };
            let fbytes = |f: &AmtField| -> Option<Vec<u8>> {
                Some(match f {
                    AmtField::Absent => return None,
                    AmtField::Equal => tu64_min(amount),
                    AmtField::PlusOne => tu64_min(amount + 1),
                    AmtField::MinusOne => tu64_min(amount - 1),
                    AmtField::LeadingZeros => amount.to_be_bytes().to_vec(),
                    AmtField::NineBytes => {
                        let mut v = vec![0u8];
                        v.extend_from_slice(&amount.to_be_bytes());
                        v
                    }
                    AmtField::Empty => vec![],
                    AmtField::Raw(b) => b.clone(),
                })
            };
            let meta = match sig {
                1 => Meta::BadSig,
                2 => Meta::NotUtf8,
                3 => Meta::NotBolt11,
                4 => Meta::FlippedRecid,
                5 => Meta::NonMinimalExpiry,
                _ => match fbytes(&field) {
                    None => Meta::InvoiceOnly,
                    Some(b) => Meta::WithAmount(Hx(b)),
                },
            };
            let h = HtlcSpec {
                pay: 0,
                hash_of: if hash_differs { Some(1) } else { None },
                amount_msat: 1_005_000,
                total_msat: None,
                forward_msat: Some(1_005_000),
                cltv_expiry: 1000 + 1100,
                cltv_rel: 1100,
                forward: false,
                meta,
                extra: vec![(2, Hx(vec![1])), (4, Hx(vec![2]))],
                raw_payload: None,
            };
            let mut scn = Scenario {
                cfg,
                payments: vec![p0, p1],
                htlcs: vec![h],
                steps: vec![],
                write_faults: vec![],
                read_faults: vec![],
                start_height: 1000,
                tokio_seed: seed,
                c16_profile: false,
                probe: false,
                direct: vec![],
                initial_parts: vec![],
                manual_getinfo: false,
                crash_at: vec![],
                freeze: None,
        hold: vec![],
        freeze_polls: false,
        initial_pending: vec![],
        ds_read_faults: vec![],
        initial_succeeded: vec![],
        cfg_later: None,
        notif_stall: false,
        pay_opts: None,
        fail_store: None,
            };
            // fund the HTLC for whatever amount the reference classifier expects
            if let Class::Trampoline { amount, .. } = scn.classify(0) {
                let need = needed_total(&scn.cfg, amount).min(4_000_000_000_000_000_000);
                scn.htlcs[0].amount_msat = need;
                scn.htlcs[0].forward_msat = Some(need);
            }
            scn
        })
}

fn case(scn: &Scenario) -> CaseReport {
    let class = scn.classify(0);
    let out = run_world(scn);
    let pays = out.stats.pays;
    let mut rep = report_for("C10", scn, out, |_| true, |_| vec![]);
    let parsed = !matches!(scn.htlcs[0].meta, Meta::NotUtf8 | Meta::NotBolt11);
    rep.nontrivial = parsed;
    let p0 = &scn.payments[0];
    rep.fingerprint = fp_of(&format!("{:?}|{:?}|{:?}|{:?}|{}|{:?}|{}", scn.htlcs[0].meta, scn.htlcs[0].hash_of, p0.invoice_amount, p0.hints, p0.explicit_payee, p0.tlv_amount, scn.cfg.allow_self));
    let cname = match &class {
        Class::NonTrampoline => "class_not_trampoline",
        Class::SelfHintRejected => "class_self_hint_rejected",
        Class::Trampoline { .. } => "class_trampoline",
        Class::Unknown => "class_unknown",
    };
    rep.classes.push(cname.into());
    if !matches!(class, Class::Trampoline { .. }) && pays > 0 {
        rep.violations.push(Violation::new("C10", "paid_for_non_trampoline_htlc", format!("a pay request was issued although the HTLC is {class:?}")));
    }
    if matches!(class, Class::Trampoline { .. }) && pays > 0 {
        rep.classes.push("trampoline_paid".into());
    }
    rep
}

pub fn run(tier: Tier, seed: u64) -> i32 {
    let rule = "WORLD, single-HTLC scenarios, all RPCs answered promptly: invoice {amount, amountless} x signature {valid recovered, valid explicit payee, invalid, not utf-8, not bolt11} x route hints {none, other, ours last, ours not last, two hints} x invoice hash {=, != HTLC hash} x amount field {absent, equal, +-1, leading zeros, 9 bytes, empty, raw 0-9 bytes} x self-route-hint flag. A reference classifier written from the property text (using the third-party invoice parser) gives the expected class. Oracle: not-trampoline => `continue` in the delivery instant and no pay; self-hint disallowed => fail at once, no pay; trampoline => pay carries exactly the invoice and amount_msat (absent for fixed-amount, declared otherwise), failure notification names the key the signature verifies against. Non-trivial: the invoice parsed; distinct by abstract trace hash.";
    let mut s = Session::new("C10", tier, seed, "exploration", rule);
    for a in ASSUMPTIONS {
        s.assume(a);
    }
    s.assume("lightning-invoice (third party) is the reference for signature validity, payment hash, amount and route hints");
    s.regress::<Scenario, _>("world", case);
    s.search("world-single-htlc", "world", tier.pick(1500, 40000), c10_strategy, case);
    s.finish()
}
