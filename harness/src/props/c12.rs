//! C12 — fee check exact in both build flavours; failure encoding carries the policy.
use crate::gen::*;
use crate::messages::{HtlcFailReason, TrampolineRoutingPolicy};
use crate::refmodel::*;
use crate::runner::*;
use proptest::prelude::*;
use serde::{Deserialize, Serialize};
use serde_json::json;

#[derive(Clone, Debug, Serialize, Deserialize)]
pub struct FeeCase {
    pub base: u32,
    pub ppm: u32,
    pub delta: u16,
    pub total: u64,
    pub amount: u64,
}

pub fn fee_case() -> impl Strategy<Value = FeeCase> {
    let plain = (u32_biased(), u32_biased(), u16_biased(), u64_biased(), u64_biased())
        .prop_map(|(base, ppm, delta, total, amount)| FeeCase { base, ppm, delta, total, amount });
    // cases built so that total sits within a few units of the exact right-hand side
    let near = (u32_biased(), u32_biased(), u16_biased(), u64_biased(), -3i64..=3).prop_map(|(base, ppm, delta, amount, d)| {
        let rhs = amount as u128 + base as u128 + (amount as u128 * ppm as u128) / 1_000_000;
        let t = (rhs as i128 + d as i128).clamp(0, u64::MAX as i128) as u64;
        FeeCase { base, ppm, delta, total: t, amount }
    });
    // cases where amount + fee straddles 2^64
    let wrap = (u32_biased(), u32_biased(), u16_biased(), 0u64..=5_000_000_000, u64_biased()).prop_map(|(base, ppm, delta, below, total)| {
        FeeCase { base, ppm, delta, total, amount: u64::MAX - below }
    });
    prop_oneof![3 => plain, 4 => near, 2 => wrap]
}

fn rhs(c: &FeeCase) -> u128 {
    c.amount as u128 + c.base as u128 + (c.amount as u128 * c.ppm as u128) / 1_000_000
}

pub fn check_fee(c: &FeeCase) -> CaseReport {
    let mut rep = CaseReport::default();
    let expect = fee_sufficient_ref(c.base, c.ppm, c.total, c.amount);
    let cc = c.clone();
    let checked = std::panic::catch_unwind(move || {
        TrampolineRoutingPolicy { fee_base_msat: cc.base, fee_proportional_millionths: cc.ppm, cltv_expiry_delta: cc.delta }
            .fee_sufficient(cc.total, cc.amount)
    });
    match checked {
        Ok(v) if v == expect => {}
        Ok(v) => rep.violations.push(
            Violation::new("C12", "fee_mismatch_checked_build", format!("fee_sufficient({c:?}) = {v}, reference {expect}"))
                .with_sig(json!({"kind":"fee_mismatch","build":"checked","got":v,"want":expect,"amount_times_ppm_exceeds_u64": (c.amount as u128 * c.ppm as u128) > u64::MAX as u128})),
        ),
        Err(_) => rep.violations.push(
            Violation::new("C12", "fee_panic_checked_build", format!("fee_sufficient({c:?}) panicked (reference {expect})"))
                .with_sig(json!({"kind":"fee_panic","build":"checked"})),
        ),
    }
    let cc = c.clone();
    let wrapping = std::panic::catch_unwind(move || pure::fee_sufficient_wrapping(cc.base, cc.ppm, cc.delta, cc.total, cc.amount));
    match wrapping {
        Ok(v) if v == expect => {}
        Ok(v) => rep.violations.push(
            Violation::new("C12", "fee_mismatch_wrapping_build", format!("wrapping build: fee_sufficient({c:?}) = {v}, reference {expect}"))
                .with_sig(json!({"kind":"fee_mismatch","build":"wrapping","got":v,"want":expect,"amount_times_ppm_exceeds_u64": (c.amount as u128 * c.ppm as u128) > u64::MAX as u128})),
        ),
        Err(_) => rep.violations.push(
            Violation::new("C12", "fee_panic_wrapping_build", format!("wrapping build: fee_sufficient({c:?}) panicked"))
                .with_sig(json!({"kind":"fee_panic","build":"wrapping"})),
        ),
    }
    // failure encoding
    let enc = std::panic::catch_unwind({
        let cc = c.clone();
        move || {
            HtlcFailReason::TrampolineFeeOrExpiryInsufficient(TrampolineRoutingPolicy {
                fee_base_msat: cc.base,
                fee_proportional_millionths: cc.ppm,
                cltv_expiry_delta: cc.delta,
            })
            .encode()
        }
    });
    let want = fee_failure_ref(c.base, c.ppm, c.delta);
    match enc {
        Ok(v) if v == want => {}
        Ok(v) => rep.violations.push(Violation::new(
            "C12",
            "failure_encoding",
            format!("encode({},{},{}) = {} want {}", c.base, c.ppm, c.delta, hex::encode(v), hex::encode(want)),
        )),
        Err(_) => rep.violations.push(Violation::new("C12", "failure_encoding_panic", format!("encode panicked for {c:?}"))),
    }
    let r = rhs(c);
    let near_total = (r as i128 - c.total as i128).abs() <= (1 << 20);
    let near_wrap = (r as i128 - (1i128 << 64)).abs() <= (1 << 20);
    let mul_over = (c.amount as u128 * c.ppm as u128) > u64::MAX as u128;
    rep.nontrivial = near_total || near_wrap || mul_over;
    rep.fingerprint = fp_of(&(c.base, c.ppm, c.total, c.amount));
    if near_total {
        rep.classes.push("rhs_near_total".into());
    }
    if near_wrap {
        rep.classes.push("rhs_near_2^64".into());
    }
    if r > u64::MAX as u128 {
        rep.classes.push("rhs_exceeds_64_bits".into());
    }
    if mul_over {
        rep.classes.push("product_exceeds_64_bits".into());
    }
    rep.classes.push(if expect { "sufficient".into() } else { "insufficient".into() });
    if rep.nontrivial {
        rep.sample = Some(json!({"case": c, "reference": expect}));
    }
    rep
}

fn grid() -> Vec<FeeCase> {
    let amounts: Vec<u64> = vec![
        0, 1, 2, 199, 200, 201, 999_999, 1_000_000, 1_000_001, 0xffff_ffff, 0x1_0000_0000, 2_100_000_000_000_000_000,
        u64::MAX / 1_000_000, u64::MAX / 1_000_000 + 1, u64::MAX / 5000, u64::MAX / 5000 + 1, u64::MAX / 0xffff_ffff,
        u64::MAX / 0xffff_ffff + 1, 1 << 62, (1 << 63) - 1, 1 << 63, u64::MAX - 0xffff_ffff, u64::MAX - 1_000_001,
        u64::MAX - 1_000_000, u64::MAX - 101, u64::MAX - 100, u64::MAX - 99, u64::MAX - 11, u64::MAX - 10, u64::MAX - 9,
        u64::MAX - 2, u64::MAX - 1, u64::MAX,
    ];
    let fees: Vec<u32> = vec![0, 1, 2, 10, 100, 5000, 999_999, 1_000_000, 1_000_001, 0x7fff_ffff, u32::MAX - 1, u32::MAX];
    let mut out = vec![];
    for &amount in &amounts {
        for &base in &fees {
            for &ppm in &fees {
                let r = amount as u128 + base as u128 + (amount as u128 * ppm as u128) / 1_000_000;
                let mut totals: Vec<u64> = amounts.clone();
                for d in -2i128..=2 {
                    let t = r as i128 + d;
                    if t >= 0 && t <= u64::MAX as i128 {
                        totals.push(t as u64);
                    }
                    // wrapped value of the right-hand side (what a wrapping add would compare against)
                    let w = ((r & (u64::MAX as u128)) as i128 + d).clamp(0, u64::MAX as i128);
                    totals.push(w as u64);
                }
                for total in totals {
                    out.push(FeeCase { base, ppm, delta: 1008, total, amount });
                }
            }
        }
    }
    out
}

pub fn run(tier: Tier, seed: u64) -> i32 {
    let mut s = Session::new(
        "C12",
        tier,
        seed,
        "exploration",
        "PURE: (base,ppm,total,amount) boundary-biased proptest + a fixed grid of special values, each evaluated in the overflow-checking build and in the wrapping build against a u128 reference; failure encoding against the byte layout. WORLD: first HTLC of a fresh payment with declared total failing the reference test / relative expiry below the policy delta must be answered 0x201a||policy. Non-trivial (PURE): RHS within 2^20 of total or of 2^64, or amount*ppm exceeds 64 bits; distinct by (base,ppm,total,amount). Non-trivial (WORLD): the rejection clause applied.",
    );
    s.assume("the `pure` crate is compiled with overflow-checks=false (witnessed at run time by a wrapping add)");
    // witness both build flavours
    let w = std::panic::catch_unwind(|| pure::wraps(std::hint::black_box(u64::MAX), std::hint::black_box(2)));
    if w.ok() != Some(1) {
        eprintln!("pure crate is not a wrapping build");
        return 2;
    }
    let c = std::panic::catch_unwind(|| std::hint::black_box(u64::MAX) + std::hint::black_box(2));
    if c.is_ok() {
        eprintln!("harness crate is not an overflow-checking build");
        return 2;
    }
    s.regress::<FeeCase, _>("pure-fee", check_fee);
    s.search("proptest-fee", "pure-fee", tier.pick(20_000, 400_000), fee_case, check_fee);
    let g = grid();
    s.enumerate("grid-fee", "pure-fee", g, check_fee);
    crate::props::world_clause::c12_world(&mut s);
    s.finish()
}

pub fn replay(engine: &str, case: serde_json::Value) -> Option<CaseReport> {
    if engine == "world" {
        return crate::props::worldprops::replay_world("C12", case);
    }
    if engine == "pure-fee" {
        let c: FeeCase = serde_json::from_value(case).ok()?;
        return Some(check_fee(&c));
    }
    None
}
