//! C06 — every htlc_accepted call gets exactly one response; nothing panics or hangs.
use crate::monitors::Stats;
use crate::props::worldprops::*;
use crate::runner::*;
use crate::scen::*;

pub fn run(tier: Tier, seed: u64) -> i32 {
    let rule = "WORLD: byte-level requests (arbitrary onion payload bytes and payment-metadata bytes: truncated varints at every width, oversized lengths, dangling bytes), numeric extremes, 1-6 HTLCs per hash, rejecting HTLCs before/during/after payment, RPC errors on writes (quick) and on reads (thorough), crashes. Oracle after the fair drain: every delivered call completed exactly once with a well-formed continue/fail/resolve, no task panicked, sets that never complete are failed no later than one MPP timeout after the state fetch (or after the recovery of an interrupted attempt). E2E (deciding for the reply shape): the same malformed requests through the real binary, each id must get exactly one reply with result continue/fail/resolve and stderr must show no panic. FUZZ (thorough): libFuzzer target over the same entry point with stub collaborators. Non-trivial: the request reached handle_htlc past classification, or the payload was malformed at TLV level; distinct by abstract trace hash.";
    let mut s = Session::new("C06", tier, seed, "exploration", rule);
    for a in ASSUMPTIONS {
        s.assume(a);
    }
    s.assume("the node's RPC keeps answering: the drain answers every RPC; what is still unanswered afterwards is a hang inside the model, not a timeout");
    let nontrivial: fn(&Stats) -> bool = |st| st.past_classification > 0 || st.undeserialisable > 0;
    let classes: fn(&Stats) -> Vec<String> = |st| {
        let mut v = vec![];
        if st.undeserialisable > 0 {
            v.push("request_not_deserialisable".into());
        }
        if st.past_classification > 0 {
            v.push("reached_lifecycle".into());
        }
        if st.nontramp_answered > 0 {
            v.push("non_trampoline_present".into());
        }
        v
    };
    let case = world_case("C06", nontrivial, classes);
    s.regress::<Scenario, _>("world", &case);
    let d = Profile::default();
    let prof = Profile { w_raw_payload: 25, w_nontramp: 8, w_reject: 15, w_hash_mismatch: 5, max_parts: 6, max_payments: 2, raw_bytes: true, ..d.clone() };
    let p1 = prof.clone();
    s.search("world-malformed-and-faults", "world", tier.pick(600, 15000), move || scenario_strategy(p1.clone()), &case);
    let p2 = Profile { extreme_cfg: true, ..prof.clone() };
    s.search("world-extreme-config", "world", tier.pick(200, 5000), move || scenario_strategy(p2.clone()), &case);
    if tier == Tier::Thorough {
        let p3 = Profile { read_faults: true, ..prof.clone() };
        s.search("world-read-faults", "world", 10000, move || scenario_strategy(p3.clone()), &case);
    }
    {
        // a failed attempt followed by further HTLCs of the hash, while the failure-notification service never returns
        use proptest::strategy::Strategy;
        s.search("world-retry-while-notification-stalls", "world", tier.pick(100, 2000), || crate::props::worldprops::after_failed_attempts_strategy().prop_map(|mut x| { x.notif_stall = true; x }), &case);
    }
    crate::e2e::c06_e2e(&mut s);
    crate::props::par::par_phase(&mut s, "C06");
    if tier == Tier::Thorough {
        crate::fuzzdrv::run_campaign(&mut s, "request", "C06");
    }
    s.finish()
}
