//! Shared proptest strategies (boundary-biased integers, byte strings).
use proptest::prelude::*;

pub const U64_SPECIALS: &[u64] = &[
    0, 1, 2, 0xfc, 0xfd, 0xfe, 0xff, 0x100, 999, 1000, 999_999, 1_000_000, 1_000_001, 0xffff, 0x10000,
    2_000_000, 0x7fff_ffff, 0x8000_0000, 0xffff_fffe, 0xffff_ffff, 0x1_0000_0000, 0x1_0000_0001,
    1_000_000_000_000, 2_100_000_000_000_000_000, 0x7fff_ffff_ffff_ffff, 0x8000_0000_0000_0000,
    u64::MAX / 1_000_000, u64::MAX / 1_000_000 + 1, u64::MAX / 5000, u64::MAX / 5000 + 1,
    u64::MAX / 0xffff_ffff, u64::MAX / 0xffff_ffff + 1, u64::MAX / 2, u64::MAX / 2 + 1,
    u64::MAX - 0xffff_ffff, u64::MAX - 1_000_000, u64::MAX - 101, u64::MAX - 100, u64::MAX - 99, u64::MAX - 10,
    u64::MAX - 2, u64::MAX - 1, u64::MAX,
];

pub const U32_SPECIALS: &[u32] = &[
    0, 1, 2, 10, 99, 100, 101, 999, 1000, 4999, 5000, 5001, 999_999, 1_000_000, 1_000_001, 0xffff, 0x10000,
    0x7fff_ffff, 0x8000_0000, u32::MAX - 1, u32::MAX,
];

pub fn u64_biased() -> impl Strategy<Value = u64> {
    prop_oneof![
        3 => proptest::sample::select(U64_SPECIALS),
        2 => (proptest::sample::select(U64_SPECIALS), 0u64..=3, any::<bool>())
            .prop_map(|(b, d, up)| if up { b.saturating_add(d) } else { b.saturating_sub(d) }),
        2 => (0u32..64, any::<u64>()).prop_map(|(s, v)| v >> s),
        1 => 0u64..=10_000_000,
        1 => any::<u64>(),
    ]
}

pub fn u32_biased() -> impl Strategy<Value = u32> {
    prop_oneof![
        3 => proptest::sample::select(U32_SPECIALS),
        2 => (0u32..32, any::<u32>()).prop_map(|(s, v)| v >> s),
        1 => 0u32..=20_000,
        1 => any::<u32>(),
    ]
}

pub fn u16_biased() -> impl Strategy<Value = u16> {
    prop_oneof![
        2 => proptest::sample::select(&[0u16, 1, 2, 33, 34, 35, 144, 1008, 0x7fff, 0x8000, 0xfffe, 0xffff][..]),
        1 => any::<u16>(),
    ]
}

/// monotone index mapping (keeps shrinking meaningful)
pub fn pick(i: u16, len: usize) -> usize {
    if len == 0 {
        0
    } else {
        ((i as usize) * len) >> 16
    }
}

/// Byte string that (de)serialises as a hex string (readable replay files).
#[derive(Clone, PartialEq, Eq, Hash, Default)]
pub struct Hx(pub Vec<u8>);
impl std::fmt::Debug for Hx {
    fn fmt(&self, f: &mut std::fmt::Formatter<'_>) -> std::fmt::Result {
        write!(f, "x{}", hex::encode(&self.0))
    }
}
impl serde::Serialize for Hx {
    fn serialize<S: serde::Serializer>(&self, s: S) -> Result<S::Ok, S::Error> {
        s.serialize_str(&hex::encode(&self.0))
    }
}
impl<'de> serde::Deserialize<'de> for Hx {
    fn deserialize<D: serde::Deserializer<'de>>(d: D) -> Result<Self, D::Error> {
        let s: String = serde::Deserialize::deserialize(d)?;
        hex::decode(s).map(Hx).map_err(serde::de::Error::custom)
    }
}
