//! Driver for libFuzzer campaigns (thorough tier). Filled in later.
use crate::runner::Session;
pub fn run_campaign(_s: &mut Session, _target: &str, _prop: &str) {}
