//! Driver for libFuzzer campaigns (thorough tier): `cargo +nightly fuzz run
//! <target> -- -runs=N -seed=S` on a fresh corpus seeded with golden inputs.
//! A crash artifact becomes a replay file of the matching in-process engine.
use crate::runner::*;
use serde_json::json;
use std::process::Command;

pub fn run_campaign(s: &mut Session, target: &str, prop: &str) {
    let root = root();
    let fdir = root.join("harness/fuzz");
    if !fdir.join("Cargo.toml").exists() {
        s.extra.insert(format!("fuzz_{target}"), json!("fuzz crate missing"));
        return;
    }
    let corpus = fdir.join(format!("corpus/{target}"));
    let artifacts = fdir.join(format!("artifacts/{target}"));
    let _ = std::fs::remove_dir_all(&corpus);
    let _ = std::fs::remove_dir_all(&artifacts);
    std::fs::create_dir_all(&corpus).unwrap();
    if let Ok(rd) = std::fs::read_dir(fdir.join(format!("seeds/{target}"))) {
        for e in rd.flatten() {
            let _ = std::fs::copy(e.path(), corpus.join(e.file_name()));
        }
    }
    let default_runs = if target == "request" { 48_000 } else { 2_000_000 };
    let runs: u64 = std::env::var("VERIF_FUZZ_RUNS").ok().and_then(|v| v.parse().ok()).unwrap_or(default_runs);
    let jobs = 8u64;
    for e in std::fs::read_dir(&fdir).into_iter().flatten().flatten() {
        let n = e.file_name().to_string_lossy().to_string();
        if n.starts_with("fuzz-") && n.ends_with(".log") {
            let _ = std::fs::remove_file(e.path());
        }
    }
    let seed = (s.seed % 4_000_000_000).max(1);
    let t0 = std::time::Instant::now();
    let out = Command::new("cargo")
        .current_dir(&fdir)
        .env("CARGO_NET_OFFLINE", "true")
        .args(["+nightly", "fuzz", "run", target, &format!("corpus/{target}"), "--"])
        .args([format!("-runs={}", runs / jobs), format!("-seed={seed}"), "-max_len=600".into(), "-len_control=0".into(), "-print_final_stats=1".into(), "-timeout=20".into(), format!("-jobs={jobs}"), format!("-workers={jobs}")])
        .output();
    let out = match out {
        Ok(o) => o,
        Err(e) => {
            s.extra.insert(format!("fuzz_{target}"), json!(format!("could not start cargo fuzz: {e}")));
            return;
        }
    };
    let mut stderr = String::from_utf8_lossy(&out.stderr).to_string();
    // with -jobs the per-job output goes to fuzz-<n>.log in the fuzz directory (the parent echoes it: count once)
    let has_logs = std::fs::read_dir(&fdir).into_iter().flatten().flatten().any(|e| { let n = e.file_name().to_string_lossy().to_string(); n.starts_with("fuzz-") && n.ends_with(".log") });
    if has_logs {
        stderr.clear();
    }
    for e in std::fs::read_dir(&fdir).into_iter().flatten().flatten() {
        let n = e.file_name().to_string_lossy().to_string();
        if n.starts_with("fuzz-") && n.ends_with(".log") {
            stderr.push_str(&std::fs::read_to_string(e.path()).unwrap_or_default());
            let _ = std::fs::remove_file(e.path());
        }
    }
    let execs: u64 = stderr.lines().filter_map(|l| l.strip_prefix("stat::number_of_executed_units:").map(|x| x.trim().parse::<u64>().unwrap_or(0))).sum();
    let cov = stderr.lines().rev().find_map(|l| l.split("cov: ").nth(1).map(|x| x.split_whitespace().next().unwrap_or("").to_string())).unwrap_or_default();
    let corpus_n = std::fs::read_dir(&corpus).map(|d| d.count()).unwrap_or(0);
    let mut crashes = vec![];
    if let Ok(rd) = std::fs::read_dir(&artifacts) {
        for e in rd.flatten() {
            let name = e.file_name().to_string_lossy().to_string();
            if name.starts_with("crash-") || name.starts_with("timeout-") || name.starts_with("oom-") {
                crashes.push(e.path());
            }
        }
    }
    s.extra.insert(
        format!("fuzz_{target}"),
        json!({"engine": "libFuzzer via cargo-fuzz", "runs_requested": runs, "executions": execs, "final_coverage_edges": cov, "corpus_files": corpus_n, "seed": seed, "crashes": crashes.len(), "wall_s": t0.elapsed().as_secs_f64(), "exit_ok": out.status.success()}),
    );
    // count the campaign as evaluations (not as distinct non-trivial cases: libFuzzer does not report those)
    s.total.evaluations += execs;
    for c in crashes {
        let bytes = std::fs::read(&c).unwrap_or_default();
        let is_crash = c.file_name().unwrap().to_string_lossy().starts_with("crash-");
        if !is_crash {
            // timeouts / OOM are infrastructure signals, not violations
            s.e2e_inconclusive += 1;
            continue;
        }
        let (engine, case) = match target {
            "tlv" => ("pure-tlv", json!({"Bytes": hex::encode(&bytes)})),
            _ => ("fuzz-request", json!({"input": hex::encode(&bytes)})),
        };
        let viol = Violation::new(prop, "libfuzzer_crash", format!("libFuzzer target `{target}` crashed (panic or oracle assertion) on input {}", hex::encode(&bytes)));
        let body = json!({"property": prop, "engine": engine, "case": case, "violations": [viol.clone()]});
        let text = serde_json::to_string_pretty(&body).unwrap();
        let dir = root.join("replays/found");
        let _ = std::fs::create_dir_all(&dir);
        let path = dir.join(format!("{}-fuzz-{:016x}.json", prop, fp_of(&text)));
        std::fs::write(&path, text).unwrap();
        s.failures.push(Failure { replay_path: path, violations: vec![viol] });
    }
    if !out.status.success() && s.failures.is_empty() {
        s.extra.insert(format!("fuzz_{target}_stderr_tail"), json!(stderr.lines().rev().take(15).collect::<Vec<_>>()));
    }
}
